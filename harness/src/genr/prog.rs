//! Type-directed generator of SimpleSL programs (decoded from a tape).
//! Every expression is built for a wanted type under the documented typing rules; the
//! generator keeps the static type of every name in scope. Loops and recursion are bounded
//! by construction.
use super::ast::{Arm, Expr, Stmt};
use crate::{tape::Tape, ty::Ty};

#[derive(Clone, Copy, Debug)]
pub struct Profile {
    /// wrap subexpressions in tick calls (observable evaluation order)
    pub effects: u32,
    /// few names, much shadowing, closures capturing
    pub scoping: u32,
    /// conditionals, matches, loops, break/continue/return
    pub control: u32,
    /// cells, aliasing, assignments
    pub cells: u32,
    /// iterators and their operators
    pub iterators: u32,
    /// operations that may fail at run time (division by a possibly zero value ...)
    pub failing: u32,
    /// max statements at top level
    pub top: usize,
    pub depth: usize,
    /// run-time type tests also on arrays and nested compound types, whose run-time type depends
    /// on how they were built (only for checks that do not compare with the reference interpreter)
    pub free_dispatch: bool,
}

impl Profile {
    pub fn with_free_dispatch(mut self) -> Self {
        self.free_dispatch = true;
        self
    }
    pub const GENERAL: Profile = Profile { effects: 2, scoping: 2, control: 2, cells: 2, iterators: 2, failing: 1, top: 10, depth: 3, free_dispatch: false };
    pub const SCOPING: Profile = Profile { effects: 1, scoping: 6, control: 2, cells: 2, iterators: 2, failing: 0, top: 12, depth: 3, free_dispatch: false };
    pub const EFFECTS: Profile = Profile { effects: 8, scoping: 1, control: 2, cells: 2, iterators: 1, failing: 1, top: 8, depth: 3, free_dispatch: false };
    pub const CONTROL: Profile = Profile { effects: 2, scoping: 1, control: 8, cells: 1, iterators: 1, failing: 0, top: 8, depth: 3, free_dispatch: false };
    pub const CELLS: Profile = Profile { effects: 1, scoping: 2, control: 1, cells: 8, iterators: 1, failing: 2, top: 12, depth: 3, free_dispatch: false };
    pub const ITERATORS: Profile = Profile { effects: 3, scoping: 1, control: 1, cells: 1, iterators: 8, failing: 1, top: 8, depth: 3, free_dispatch: false };
    pub const CONSTANTS: Profile = Profile { effects: 1, scoping: 2, control: 3, cells: 1, iterators: 1, failing: 3, top: 10, depth: 3, free_dispatch: false };
}

#[derive(Clone, Debug)]
struct Var {
    name: String,
    ty: Ty,
    /// the declared type is the variable's static type exactly (parameters, constants of a known
    /// union type); otherwise it is only an upper bound of it
    exact: bool,
}

pub struct Program {
    pub body: Vec<Stmt>,
    /// types for which a tick function tkN is declared
    pub tick_types: Vec<Ty>,
    /// top-level names in scope at the end, with their types (observed in the result tuple)
    pub observed: Vec<(String, Ty)>,
    pub labels: Vec<&'static str>,
}

pub struct Gen<'a> {
    tape: &'a mut Tape,
    p: Profile,
    scopes: Vec<Vec<Var>>,
    tick_types: Vec<Ty>,
    next_tick: i64,
    fresh: usize,
    fn_ret: Option<Ty>,
    in_loop: bool,
    labels: Vec<&'static str>,
    budget: usize,
    /// names bound to finite iterators (an ordinary function of type ()->(bool, T) is not one)
    iterators: Vec<String>,
    /// statements that must follow the one just generated (top level only)
    pending: Vec<Stmt>,
    /// parameters of the function being generated: their declared types are their static types exactly
    /// (the declared type of any other variable is only an upper bound of its static type)
    params: Vec<(String, Ty)>,
}

fn is_counter(name: &str) -> bool {
    let mut cs = name.chars();
    matches!(cs.next(), Some('k') | Some('w')) && cs.clone().next().is_some() && cs.all(|c| c.is_ascii_digit())
}

const NAMES: [&str; 6] = ["a", "b", "c", "d", "x", "y"];

/// names the implementation uses inside its own helper closures and scratch scopes (map, filter,
/// `~`, type filter, reducers): a user's variable of the same name must not be disturbed
const INTERNAL_NAMES: [&str; 15] =
    ["iterator", "default", "func", "mapper", "res", "con", "value", "array", "i", "len", "iter", "acc", "curr", "function", "val"];

/// identifiers that merely begin with a word of the language (a type name or a keyword)
pub const KEYWORD_PREFIXED_NAMES: [&str; 57] = [
    // (names a console or a helper might be tempted to bind itself)
    "ans", "last", "it", "result", "prev",
    "mutint", "mutany", "mutstring_",
    // (and the underscore, alone and leading: an identifier like any other)
    "_", "__", "_1",
    "ifx", "iffy_", "matchx", "inx", "modx", "elsex",
    "integer", "int_v", "floaty", "string_of", "boolean", "anything", "any_", "mutable", "structure", "iffy", "elsewhere", "matches", "returned",
    "looped", "fore", "breaker", "importer", "modulo", "truely", "falsey", "in_", "whiles", "continued", "format", "international", "return_",
    "break1", "loop_", "mut_", "forx", "while0", "continue_x", "true_", "false1", "mod_", "struct_", "bool_", "float1", "string2", "int0",
];

fn scalar_types() -> [Ty; 4] {
    [Ty::Int, Ty::Bool, Ty::Str, Ty::Float]
}

impl<'a> Gen<'a> {
    pub fn new(tape: &'a mut Tape, p: Profile) -> Self {
        Self { tape, p, scopes: vec![vec![]], tick_types: vec![], next_tick: 1, fresh: 0, fn_ret: None, in_loop: false, labels: vec![], budget: 400, iterators: vec![], pending: vec![], params: vec![] }
    }

    fn label(&mut self, l: &'static str) {
        if !self.labels.contains(&l) {
            self.labels.push(l);
        }
    }

    fn spend(&mut self) -> bool {
        if self.budget == 0 {
            return false;
        }
        self.budget -= 1;
        true
    }

    // ---------- scope ----------

    fn declare(&mut self, name: &str, ty: Ty) {
        // whatever the name meant before, it is no longer known to be a finite iterator
        self.iterators.retain(|n| n != name);
        self.scopes.last_mut().unwrap().push(Var { name: name.to_string(), ty, exact: false });
    }

    fn declare_exact(&mut self, name: &str, ty: Ty) {
        self.declare(name, ty);
        self.scopes.last_mut().unwrap().last_mut().unwrap().exact = true;
    }

    fn lookup(&self, name: &str) -> Option<&Ty> {
        for s in self.scopes.iter().rev() {
            if let Some(v) = s.iter().rev().find(|v| v.name == name) {
                return Some(&v.ty);
            }
        }
        None
    }

    /// visible variables (innermost declaration of each name)
    fn visible(&self) -> Vec<Var> {
        let mut seen: Vec<String> = vec![];
        let mut out = vec![];
        for s in self.scopes.iter().rev() {
            for v in s.iter().rev() {
                if !seen.contains(&v.name) {
                    seen.push(v.name.clone());
                    out.push(v.clone());
                }
            }
        }
        out
    }

    fn vars_of(&self, pred: impl Fn(&Ty) -> bool) -> Vec<Var> {
        self.visible().into_iter().filter(|v| pred(&v.ty)).collect()
    }

    /// cells the generated code may write to or alias (loop counters are excluded: writing
    /// to them could make a loop endless)
    fn writable_cells(&self, pred: impl Fn(&Ty) -> bool) -> Vec<Var> {
        self.vars_of(|t| matches!(t, Ty::Mut(_)) && pred(t))
            .into_iter()
            .filter(|v| !is_counter(&v.name))
            .collect()
    }

    fn name_for_decl(&mut self) -> String {
        // scoping profile: reuse a small pool (forces shadowing); otherwise mostly fresh names
        if self.tape.chance(self.p.scoping.min(7), 8) {
            NAMES[self.tape.below(4)].to_string()
        } else if self.tape.chance(1, 6) {
            self.label("variable named like an internal helper name");
            self.tape.pick(&INTERNAL_NAMES).to_string()
        } else if self.tape.chance(1, 8) {
            self.label("variable whose name begins with a word of the language");
            self.tape.pick(&KEYWORD_PREFIXED_NAMES).to_string()
        } else {
            self.fresh += 1;
            format!("v{}", self.fresh)
        }
    }

    /// the name a construct binds (if-set, match arm, for, while-set): now and then deliberately the
    /// name of a variable that is visible around the construct (the binder is local to its body)
    fn binder_name(&mut self) -> String {
        if self.tape.chance(1, 3) {
            let outer: Vec<String> = self
                .visible()
                .into_iter()
                .filter(|v| !v.name.starts_with("tk") && v.name != "log" && !is_counter(&v.name) && v.ty != Ty::Never && !self.iterators.contains(&v.name))
                .map(|v| v.name)
                .collect();
            if !outer.is_empty() {
                self.label("binder spelled like a visible variable");
                return outer[self.tape.below(outer.len())].clone();
            }
        }
        self.name_for_decl()
    }

    fn fresh_name(&mut self, prefix: &str) -> String {
        self.fresh += 1;
        format!("{prefix}{}", self.fresh)
    }

    // ---------- types ----------

    fn gen_scalar_ty(&mut self) -> Ty {
        self.tape.pick(&scalar_types()).clone()
    }

    /// a type whose values carry their run-time type unambiguously (for match / if-set tests):
    /// scalars, and tuples, structs and cells of scalars
    fn gen_dispatch_ty(&mut self) -> Ty {
        if self.p.free_dispatch && self.tape.chance(1, 2) {
            let a = self.gen_scalar_ty();
            let b = self.gen_scalar_ty();
            return match self.tape.below(5) {
                0 => Ty::arr(a),
                1 => Ty::arr(a.or(b)),
                2 => Ty::arr(Ty::arr(a)),
                3 => Ty::Tup(vec![Ty::arr(a), b]),
                _ => Ty::cell(Ty::arr(a)),
            };
        }
        match self.tape.weighted(&[8, 2, 1, 1, 1]) {
            4 => {
                let (a, b) = (self.gen_scalar_ty(), self.gen_scalar_ty());
                Ty::cell(a.or(b))
            }
            0 => self.gen_scalar_ty(),
            1 => {
                // pairs and triples (a pair is not a prefix of a triple)
                let mut parts = vec![self.gen_scalar_ty(), self.gen_scalar_ty()];
                if self.tape.chance(1, 3) {
                    parts.push(self.gen_scalar_ty());
                }
                Ty::Tup(parts)
            }
            2 => {
                // one or two of the fields a, b, c (the same number of fields under other names is another type)
                let names = ["a", "b", "c"];
                let first = self.tape.below(3);
                let mut fs = std::collections::BTreeMap::new();
                fs.insert(names[first].to_string(), self.gen_scalar_ty());
                if self.tape.bool() {
                    fs.insert(names[(first + 1 + self.tape.below(2)) % 3].to_string(), self.gen_scalar_ty());
                }
                Ty::Struct(fs)
            }
            _ => Ty::cell(self.gen_scalar_ty()),
        }
    }

    /// a type for a new variable / parameter
    fn gen_ty(&mut self, depth: usize) -> Ty {
        if depth == 0 {
            return self.gen_scalar_ty();
        }
        match self.tape.weighted(&[6, 3, 2, 2, 1, if depth >= 2 { 1 } else { 0 }]) {
            5 => {
                // a struct value with one or two fields (read back through field access)
                let mut fs = std::collections::BTreeMap::new();
                fs.insert(NAMES[self.tape.below(4)].to_string(), self.gen_scalar_ty());
                if self.tape.bool() {
                    fs.insert("n".to_string(), Ty::Int);
                }
                Ty::Struct(fs)
            }
            0 => self.gen_scalar_ty(),
            1 => {
                if self.tape.chance(1, 5) {
                    // an array of tuples (built from literals, pipelines and type filters over mixed tuples)
                    Ty::arr(Ty::Tup(vec![self.gen_scalar_ty(), self.gen_scalar_ty()]))
                } else if self.tape.chance(1, 6) {
                    // an array of arrays (rows)
                    Ty::arr(Ty::arr(self.gen_scalar_ty()))
                } else {
                    Ty::arr(self.gen_scalar_ty())
                }
            }
            2 => {
                let a = self.gen_scalar_ty();
                let b = self.gen_scalar_ty();
                a.or(b)
            }
            3 => Ty::Tup(vec![self.gen_scalar_ty(), self.gen_scalar_ty()]),
            _ => Ty::Void,
        }
    }

    fn tick_index(&mut self, t: &Ty) -> usize {
        if let Some(k) = self.tick_types.iter().position(|x| x == t) {
            return k;
        }
        self.tick_types.push(t.clone());
        self.tick_types.len() - 1
    }

    fn maybe_tick(&mut self, e: Expr, t: &Ty) -> Expr {
        // only first-order, non-union types get ticks (the tick function is declared with exactly that type)
        let scalar = |t: &Ty| matches!(t, Ty::Int | Ty::Bool | Ty::Str | Ty::Float);
        let tickable = scalar(t)
            || matches!(t, Ty::Arr(e) if matches!(**e, Ty::Int | Ty::Str))
            // functions over scalars (the operands of @ ? \ and $ init f are evaluated once, left to right)
            || matches!(t, Ty::Fun(ps, r) if !ps.is_empty() && ps.iter().all(scalar) && scalar(r));
        if tickable && self.tape.chance(self.p.effects.min(9), 12) {
            let n = self.tick_index(t);
            let k = self.next_tick;
            self.next_tick += 1;
            self.label("tick");
            Expr::Tick(n, k, Box::new(e))
        } else {
            e
        }
    }

    // ---------- expressions ----------

    fn lit(&mut self, t: &Ty) -> Expr {
        match t {
            Ty::Int => Expr::Int(*self.tape.pick(&[0i64, 1, 2, 3, 5, 7, -1, -4, 10, 63, 64, 100])),
            Ty::Float => Expr::Float(*self.tape.pick(&[0.0, 1.0, 2.5, -1.5, 0.5, 100.0, -0.0])),
            Ty::Bool => Expr::Bool(self.tape.bool()),
            Ty::Str => Expr::Str(self.tape.pick(&["", "a", "bc", "żó", "x y"]).to_string()),
            Ty::Void => Expr::Void,
            _ => Expr::Void,
        }
    }

    /// an expression whose static type is exactly the scalar `t` (int/float/bool/string) or a subtype of `t` otherwise
    pub fn expr(&mut self, t: &Ty, depth: usize) -> Expr {
        let e = self.expr_inner(t, depth);
        self.maybe_tick(e, t)
    }

    fn var_of_type(&mut self, t: &Ty) -> Option<Expr> {
        let exact = matches!(t, Ty::Int | Ty::Float | Ty::Bool | Ty::Str);
        let cands: Vec<Var> = self
            .vars_of(|vt| if exact { vt == t } else { crate::ty::sub(vt, t) && *vt != Ty::Never })
            .into_iter()
            .filter(|v| !(matches!(v.ty, Ty::Mut(_)) && is_counter(&v.name)))
            .collect();
        // fields of visible struct values (modules) of the wanted type
        let mut fields: Vec<Expr> = vec![];
        for v in self.vars_of(|vt| matches!(vt, Ty::Struct(_))) {
            if let Ty::Struct(fs) = &v.ty {
                for (k, ft) in fs {
                    let ok = if exact { ft == t } else { crate::ty::sub(ft, t) && *ft != Ty::Never };
                    if ok {
                        fields.push(Expr::Field(Box::new(Expr::Var(v.name.clone())), k.clone()));
                    }
                }
            }
        }
        if !fields.is_empty() && (cands.is_empty() || self.tape.chance(1, 3)) {
            self.label("field of a module / struct value");
            let k = self.tape.below(fields.len());
            return Some(fields.swap_remove(k));
        }
        if cands.is_empty() {
            None
        } else {
            Some(Expr::Var(cands[self.tape.below(cands.len())].name.clone()))
        }
    }

    /// `name := import "<file>"`: the file is self-contained (it is checked when the importing
    /// program is parsed); it yields a struct of its top-level names
    fn import_stmt(&mut self, name: String) -> Stmt {
        self.label("import");
        self.fresh += 1;
        let file = format!("lib{}.sl", self.fresh);
        // the file's body is generated in an empty scope
        let saved_scopes = std::mem::replace(&mut self.scopes, vec![vec![]]);
        let saved_iters = std::mem::take(&mut self.iterators);
        let saved_ret = self.fn_ret.take();
        let saved_loop = std::mem::replace(&mut self.in_loop, false);
        let saved_effects = self.p.effects;
        self.p.effects = 0; // tick functions are not visible to... they are, but keep files simple
        let mut body = vec![];
        for _ in 0..1 + self.tape.below(3) {
            body.push(self.let_stmt(1));
            body.append(&mut self.pending);
        }
        self.p.effects = saved_effects;
        let layer = self.scopes.pop().unwrap();
        self.scopes = saved_scopes;
        self.iterators = saved_iters;
        self.fn_ret = saved_ret;
        self.in_loop = saved_loop;
        let mut fields = std::collections::BTreeMap::new();
        for v in layer {
            fields.insert(v.name, v.ty);
        }
        fields.retain(|k, t| !is_counter(k) && *t != Ty::Never);
        self.declare(&name, Ty::Struct(fields));
        Stmt::Let(name, Box::new(Stmt::Import(file, body)))
    }

    /// `name := mod { a := ..; b := ..; a := ..; }`: a struct of exactly the names declared at the
    /// module's own top level (their last declarations), evaluated in a scope of its own
    fn module_stmt(&mut self, name: String, depth: usize) -> Stmt {
        self.label("module");
        self.scopes.push(vec![]);
        let saved_loop = self.in_loop;
        let mut body = vec![];
        let n = 1 + self.tape.below(4);
        for _ in 0..n {
            // declarations, and now and then another kind of statement in between
            let s = if self.tape.chance(1, 5) { self.stmt(depth.saturating_sub(1)) } else { Some(self.let_stmt(depth.saturating_sub(1))) };
            if let Some(s) = s {
                body.push(s);
                body.append(&mut self.pending);
            }
        }
        self.in_loop = saved_loop;
        let layer = self.scopes.pop().unwrap();
        let mut fields = std::collections::BTreeMap::new();
        for v in layer {
            fields.insert(v.name, v.ty);
        }
        // counters of loops and helper names stay inside
        fields.retain(|k, t| !is_counter(k) && *t != Ty::Never);
        self.declare(&name, Ty::Struct(fields));
        Stmt::Let(name, Box::new(Stmt::Expr(Expr::Module(body))))
    }

    fn expr_inner(&mut self, t: &Ty, depth: usize) -> Expr {
        if depth == 0 || !self.spend() {
            if self.tape.chance(1, 2)
                && let Some(v) = self.var_of_type(t)
            {
                return v;
            }
            return self.leaf(t);
        }
        match t {
            Ty::Int => self.int_expr(depth),
            Ty::Float => self.float_expr(depth),
            Ty::Bool => self.bool_expr(depth),
            Ty::Str => self.str_expr(depth),
            Ty::Void => {
                if self.tape.chance(1, 2)
                    && let Some(call) = self.call_expr(&Ty::Void, depth)
                {
                    return call;
                }
                Expr::Void
            }
            Ty::Arr(e) => self.arr_expr(e, depth),
            Ty::Tup(ts) => {
                if self.tape.chance(1, 4)
                    && let Some(v) = self.var_of_type(t)
                {
                    return v;
                }
                Expr::Tuple(ts.iter().map(|x| self.expr(x, depth - 1)).collect())
            }
            Ty::Struct(fs) => Expr::Struct(fs.iter().map(|(k, x)| (k.clone(), self.expr(x, depth - 1))).collect()),
            Ty::Union(ms) => {
                if self.tape.chance(1, 3)
                    && let Some(v) = self.var_of_type(t)
                {
                    return v;
                }
                if depth >= 2 && ms.len() >= 2 && self.tape.chance(1, 4) {
                    // an element of a mixed array: the static type is the union although the value
                    // (often a constant) is known to be of one member
                    let items: Vec<Expr> = ms.iter().map(|m| self.expr(m, depth - 1)).collect();
                    let k = self.tape.range(-(items.len() as i64), items.len() as i64 - 1);
                    self.label("element of a mixed array");
                    return Expr::Index(Box::new(Expr::Array(items)), Box::new(Expr::Int(k)));
                }
                let m = ms[self.tape.below(ms.len())].clone();
                self.expr(&m, depth)
            }
            Ty::Any => {
                let m = self.gen_ty(1);
                self.expr(&m, depth)
            }
            Ty::Mut(inner) => {
                if let Some(v) = self.var_of_type(t)
                    && self.tape.chance(2, 3)
                {
                    return v;
                }
                self.label("mut expression");
                Expr::MutNew((**inner).clone(), Box::new(self.expr(inner, depth - 1)))
            }
            Ty::Fun(ps, r) => {
                if let Some(v) = self.var_of_type(t)
                    && self.tape.chance(1, 2)
                {
                    return v;
                }
                self.lambda(ps, r, depth)
            }
            Ty::Never => Expr::Void,
        }
    }

    fn leaf(&mut self, t: &Ty) -> Expr {
        match t {
            Ty::Int | Ty::Float | Ty::Bool | Ty::Str | Ty::Void => self.lit(t),
            Ty::Arr(e) => {
                let n = self.tape.below(3);
                if n == 0 {
                    return self.empty_arr(e);
                }
                Expr::Array((0..n).map(|_| self.leaf(e)).collect())
            }
            Ty::Tup(ts) => Expr::Tuple(ts.iter().map(|x| self.leaf(x)).collect()),
            Ty::Struct(fs) => Expr::Struct(fs.iter().map(|(k, x)| (k.clone(), self.leaf(x))).collect()),
            Ty::Union(ms) => {
                let m = ms[self.tape.below(ms.len())].clone();
                self.leaf(&m)
            }
            Ty::Any => self.lit(&Ty::Int),
            Ty::Mut(inner) => Expr::MutNew((**inner).clone(), Box::new(self.leaf(inner))),
            Ty::Fun(ps, r) => self.lambda(ps, r, 0),
            Ty::Never => Expr::Void,
        }
    }

    fn lambda(&mut self, ps: &[Ty], r: &Ty, depth: usize) -> Expr {
        let mut params: Vec<(String, Ty)> = ps.iter().enumerate().map(|(i, t)| (format!("p{i}"), t.clone())).collect();
        if !params.is_empty() && self.tape.chance(1, 5) {
            // one parameter spelled like a variable that is visible around the function (constants
            // included): inside the body the name means the parameter
            let outer: Vec<String> = self.visible().into_iter().filter(|v| !v.name.starts_with("tk") && v.name != "log" && !is_counter(&v.name)).map(|v| v.name).collect();
            if !outer.is_empty() {
                self.label("parameter spelled like a visible variable");
                let k = self.tape.below(params.len());
                let name = outer[self.tape.below(outer.len())].clone();
                if !params.iter().any(|(n, _)| *n == name) {
                    params[k].0 = name;
                }
            }
        } else if !params.is_empty() && self.tape.chance(1, 6) {
            // one parameter spelled like a name the implementation's helper closures use
            self.label("parameter named like an internal helper name");
            let k = self.tape.below(params.len());
            params[k].0 = self.tape.pick(&INTERNAL_NAMES).to_string();
        }
        let body = self.function_body(&params, r, depth.min(2), None);
        self.label("anonymous function");
        Expr::Lambda(params, r.clone(), body)
    }

    fn int_expr(&mut self, depth: usize) -> Expr {
        let w_cells = self.p.cells;
        let w_fail = self.p.failing;
        match self.tape.weighted(&[3, 4, 6, 2, 2, 2, w_cells, 2, w_fail, 2, 1]) {
            0 => self.lit(&Ty::Int),
            1 => self.var_of_type(&Ty::Int).unwrap_or_else(|| self.lit(&Ty::Int)),
            2 => {
                let op = *self.tape.pick(&["+", "-", "*", "+", "-", "&", "|", "^"]);
                Expr::Bin(op, Box::new(self.expr(&Ty::Int, depth - 1)), Box::new(self.expr(&Ty::Int, depth - 1)))
            }
            3 => Expr::Neg(Box::new(self.expr(&Ty::Int, depth - 1))),
            4 => {
                // index into an int array with a literal index that is in range
                let n = 1 + self.tape.below(3);
                let arr = Expr::Array((0..n).map(|_| self.expr(&Ty::Int, depth - 1)).collect());
                let i = self.tape.range(-(n as i64), n as i64 - 1);
                self.label("index");
                Expr::Index(Box::new(arr), Box::new(Expr::Int(i)))
            }
            5 => {
                let t = if self.tape.bool() { Ty::Str } else { Ty::arr(Ty::Int) };
                self.label("len");
                Expr::Len(Box::new(self.expr(&t, depth - 1)))
            }
            6 => {
                // read (or update) an int cell
                let cells = self.writable_cells(|t| *t == Ty::cell(Ty::Int));
                if cells.is_empty() {
                    return self.lit(&Ty::Int);
                }
                let c = Expr::Var(cells[self.tape.below(cells.len())].name.clone());
                if self.tape.chance(1, 2) {
                    Expr::Deref(Box::new(c))
                } else {
                    let op = *self.tape.pick(&["=", "+=", "-=", "*=", "&=", "|=", "^="]);
                    self.label("assignment in expression");
                    Expr::Assign(op, Box::new(c), Box::new(self.expr(&Ty::Int, depth - 1)))
                }
            }
            7 => self.call_expr(&Ty::Int, depth).unwrap_or_else(|| self.lit(&Ty::Int)),
            8 => {
                // may fail at run time
                let op = *self.tape.pick(&["/", "%", "<<", ">>", "**"]);
                self.label("possibly failing operation");
                let rhs = match op {
                    "<<" | ">>" => Expr::Int(*self.tape.pick(&[0i64, 1, 5, 63, 64, -1])),
                    "**" => Expr::Int(*self.tape.pick(&[0i64, 1, 2, 3, -1])),
                    _ => {
                        // inside a function body the divisor is a literal: a divisor computed from a
                        // captured name is the known finding "closure creation folds a failing
                        // operation of the body" (excluded by construction, counted as a label)
                        if self.fn_ret.is_some() {
                            self.label("excluded: computed divisor inside a function body");
                            Expr::Int(*self.tape.pick(&[0i64, 1, 2, -1, 3]))
                        } else if self.tape.bool() {
                            Expr::Int(*self.tape.pick(&[0i64, 1, 2, -1, 3]))
                        } else {
                            self.expr(&Ty::Int, depth - 1)
                        }
                    }
                };
                Expr::Bin(op, Box::new(self.expr(&Ty::Int, depth - 1)), Box::new(rhs))
            }
            9 => {
                // tuple / struct component
                if self.tape.bool() {
                    let other = self.gen_scalar_ty();
                    let tup = Expr::Tuple(vec![self.expr(&other, depth - 1), self.expr(&Ty::Int, depth - 1)]);
                    Expr::TupleAt(Box::new(tup), 1)
                } else {
                    let other = self.gen_scalar_ty();
                    // field names deliberately not in alphabetical order: initialisers run in source order
                    let third = self.gen_scalar_ty();
                    let s = Expr::Struct(vec![
                        ("zk".into(), self.expr(&other, depth - 1)),
                        ("n".into(), self.expr(&Ty::Int, depth - 1)),
                        ("am".into(), self.expr(&third, depth - 1)),
                    ]);
                    self.label("struct literal");
                    Expr::Field(Box::new(s), "n".into())
                }
            }
            _ => self.reducer_expr(&Ty::Int, depth),
        }
    }

    fn float_expr(&mut self, depth: usize) -> Expr {
        let w_it = if depth >= 2 { self.p.iterators.min(2) } else { 0 };
        match self.tape.weighted(&[3, 3, 4, 1, w_it, 1]) {
            5 => {
                // NaN and the infinities have no literal: they are computed
                self.label("NaN / infinity");
                let (a, b) = *self.tape.pick(&[(0.0, 0.0), (1.0, 0.0), (-1.0, 0.0)]);
                Expr::Bin("/", Box::new(Expr::Float(a)), Box::new(Expr::Float(b)))
            }
            4 => {
                let it = self.iter_expr(&Ty::Float, depth - 1);
                let op = if self.tape.bool() { "$+" } else { "$*" };
                self.label("float sum/product");
                if self.tape.chance(1, 6) {
                    return self.reduce_untyped_empty(op, &Ty::Float);
                }
                Expr::Sum(op, Ty::Float, Box::new(it))
            }
            0 => self.lit(&Ty::Float),
            1 => self.var_of_type(&Ty::Float).unwrap_or_else(|| self.lit(&Ty::Float)),
            2 => {
                let op = *self.tape.pick(&["+", "-", "*", "/"]);
                Expr::Bin(op, Box::new(self.expr(&Ty::Float, depth - 1)), Box::new(self.expr(&Ty::Float, depth - 1)))
            }
            _ => Expr::Neg(Box::new(self.expr(&Ty::Float, depth - 1))),
        }
    }

    fn bool_expr(&mut self, depth: usize) -> Expr {
        match self.tape.weighted(&[2, 3, 5, 4, 2, 3, 1]) {
            0 => self.lit(&Ty::Bool),
            1 => self.var_of_type(&Ty::Bool).unwrap_or_else(|| self.lit(&Ty::Bool)),
            2 => {
                let op = *self.tape.pick(&["<", "<=", ">", ">=", "==", "!="]);
                let cells = self.writable_cells(|t| *t == Ty::cell(Ty::Int));
                if !cells.is_empty() && self.tape.chance(1, 5) {
                    // one operand reads a cell, the other writes it: left to right
                    let c = cells[self.tape.below(cells.len())].name.clone();
                    self.label("cell read compared with an assignment to the same cell");
                    let read = Expr::Deref(Box::new(Expr::Var(c.clone())));
                    let aop = *self.tape.pick(&["=", "+=", "*="]);
                    let write = Expr::Assign(aop, Box::new(Expr::Var(c)), Box::new(self.lit(&Ty::Int)));
                    return if self.tape.bool() { Expr::Bin(op, Box::new(read), Box::new(write)) } else { Expr::Bin(op, Box::new(write), Box::new(read)) };
                }
                Expr::Bin(op, Box::new(self.expr(&Ty::Int, depth - 1)), Box::new(self.expr(&Ty::Int, depth - 1)))
            }
            3 => {
                let op = *self.tape.pick(&["&&", "||"]);
                self.label("short-circuit operator");
                Expr::Bin(op, Box::new(self.expr(&Ty::Bool, depth - 1)), Box::new(self.expr(&Ty::Bool, depth - 1)))
            }
            4 => Expr::Not(Box::new(self.expr(&Ty::Bool, depth - 1))),
            5 if self.tape.chance(1, 3) => {
                // a variable compared with itself (true unless it holds NaN)
                let vars = self.vars_of(|t| matches!(t, Ty::Float | Ty::Int | Ty::Str) || matches!(t, Ty::Arr(e) | Ty::Mut(e) if **e == Ty::Float) || matches!(t, Ty::Tup(ts) if ts.contains(&Ty::Float)));
                let vars: Vec<Var> = vars.into_iter().filter(|v| !is_counter(&v.name)).collect();
                if vars.is_empty() {
                    return self.lit(&Ty::Bool);
                }
                let v = vars[self.tape.below(vars.len())].name.clone();
                self.label("variable compared with itself");
                let op = if self.tape.bool() { "==" } else { "!=" };
                Expr::Bin(op, Box::new(Expr::Var(v.clone())), Box::new(Expr::Var(v)))
            }
            5 => {
                // equality of two values of the same generated type
                let t = self.gen_ty(1);
                let op = if self.tape.bool() { "==" } else { "!=" };
                Expr::Bin(op, Box::new(self.expr(&t, depth - 1)), Box::new(self.expr(&t, depth - 1)))
            }
            _ => {
                let op = *self.tape.pick(&["&", "|", "^"]);
                Expr::Bin(op, Box::new(self.expr(&Ty::Bool, depth - 1)), Box::new(self.expr(&Ty::Bool, depth - 1)))
            }
        }
    }

    fn str_expr(&mut self, depth: usize) -> Expr {
        let w_it = if depth >= 2 { self.p.iterators.min(2) } else { 0 };
        match self.tape.weighted(&[3, 3, 4, 2, 1, w_it]) {
            5 => {
                let it = self.iter_expr(&Ty::Str, depth - 1);
                self.label("string sum");
                if self.tape.chance(1, 6) {
                    return self.reduce_untyped_empty("$+", &Ty::Str);
                }
                Expr::Sum("$+", Ty::Str, Box::new(it))
            }
            0 => self.lit(&Ty::Str),
            1 => self.var_of_type(&Ty::Str).unwrap_or_else(|| self.lit(&Ty::Str)),
            2 => Expr::Bin("+", Box::new(self.expr(&Ty::Str, depth - 1)), Box::new(self.expr(&Ty::Str, depth - 1))),
            3 => {
                self.label("slice");
                let (s, e) = self.slice_bounds();
                Expr::Slice(Box::new(self.expr(&Ty::Str, depth - 1)), s, e, None)
            }
            _ => self.call_expr(&Ty::Str, depth).unwrap_or_else(|| self.lit(&Ty::Str)),
        }
    }

    /// `$+` / `$*` over the iterator of the untyped empty literal handed to a parameter declared as an
    /// iterator over `elem`: the declared element type decides the neutral element
    fn reduce_untyped_empty(&mut self, op: &'static str, elem: &Ty) -> Expr {
        self.label("sum/product over []~ behind a typed parameter");
        let body = vec![Stmt::Return(Some(Box::new(Stmt::Expr(Expr::Sum(op, elem.clone(), Box::new(Expr::Var("p0".into())))))))];
        let f = Expr::Lambda(vec![("p0".into(), Ty::iter_of(elem.clone()))], elem.clone(), body);
        Expr::Call(Box::new(f), vec![Expr::Iter(Box::new(Expr::Array(vec![])))])
    }

    fn slice_bounds(&mut self) -> (Option<Box<Expr>>, Option<Box<Expr>>) {
        // literal bounds, ticked bounds (their effects happen also when nothing is selected), now
        // and then a computed one
        let b = |g: &mut Self| {
            if !g.tape.bool() {
                return None;
            }
            let lit = Expr::Int(g.tape.range(-3, 3));
            Some(Box::new(match g.tape.weighted(&[3, 2, 1]) {
                0 => lit,
                1 => g.maybe_tick(lit, &Ty::Int),
                _ => g.expr(&Ty::Int, 1),
            }))
        };
        (b(self), b(self))
    }

    fn arr_expr(&mut self, elem: &Ty, depth: usize) -> Expr {
        let t = Ty::arr(elem.clone());
        let w_it = self.p.iterators;
        if let Ty::Union(ms) = elem
            && ms.len() >= 2
            && depth >= 2
            && self.tape.chance(1, 5)
        {
            // every element has the union as its static type, and all of them are of one member: what
            // the array is labelled with must not depend on whether the elements were folded
            let k = self.tape.below(ms.len());
            let (m, other) = (ms[k].clone(), ms[(k + 1) % ms.len()].clone());
            let n = 1 + self.tape.below(3);
            self.label("array of union-typed elements of one member");
            let vars: Vec<Var> = self.vars_of(|t| matches!(t, Ty::Union(_)) && crate::ty::sub(t, elem));
            let items = (0..n)
                .map(|_| {
                    if !vars.is_empty() && self.tape.bool() {
                        // a variable whose static type is a union, whatever it holds
                        return Expr::Var(vars[self.tape.below(vars.len())].name.clone());
                    }
                    let pair = vec![self.expr(&m, depth - 1), self.leaf(&other)];
                    Expr::Index(Box::new(Expr::Array(pair)), Box::new(Expr::Int(0)))
                })
                .collect();
            return Expr::Array(items);
        }
        match self.tape.weighted(&[4, 3, 3, 2, 2, w_it]) {
            0 => {
                let n = self.tape.below(4);
                if n == 0 {
                    return self.empty_arr(elem);
                }
                Expr::Array((0..n).map(|_| self.expr(elem, depth - 1)).collect())
            }
            1 => self.var_of_type(&t).unwrap_or_else(|| self.leaf(&t)),
            2 => Expr::Bin("+", Box::new(self.expr(&t, depth - 1)), Box::new(self.expr(&t, depth - 1))),
            3 => {
                self.label("array repeat");
                let n = Expr::Int(self.tape.range(0, 3));
                let n = self.maybe_tick(n, &Ty::Int);
                Expr::Repeat(Box::new(self.expr(elem, depth - 1)), Box::new(n))
            }
            4 => {
                self.label("slice");
                let (s, e) = self.slice_bounds();
                let step = if self.tape.chance(1, 3) { Some(Box::new(Expr::Int(*self.tape.pick(&[1i64, 2, -1, -2, 0])))) } else { None };
                Expr::Slice(Box::new(self.expr(&t, depth - 1)), s, e, step)
            }
            _ if matches!(elem, Ty::Int | Ty::Str | Ty::Float | Ty::Bool) && self.tape.chance(1, 3) => {
                // one half of a partition: the predicate is applied to each element as it is pulled
                let it = self.iter_expr(elem, depth - 1);
                let p = self.lambda(std::slice::from_ref(elem), &Ty::Bool, depth.min(1));
                let p = self.maybe_tick(p, &Ty::fun(vec![elem.clone()], Ty::Bool));
                self.label("partition");
                Expr::TupleAt(Box::new(Expr::Partition(Box::new(it), Box::new(p))), self.tape.below(2))
            }
            _ => {
                // collect an iterator pipeline
                let it = self.iter_expr(elem, depth - 1);
                self.label("collect");
                Expr::Post("$]", Box::new(it))
            }
        }
    }

    /// a call of a visible function (or a fresh lambda) whose result type is exactly `want`
    fn call_expr(&mut self, want: &Ty, depth: usize) -> Option<Expr> {
        let funs = self.vars_of(|t| matches!(t, Ty::Fun(_, r) if **r == *want));
        if !funs.is_empty() && self.tape.chance(3, 4) {
            let f = funs[self.tape.below(funs.len())].clone();
            let Ty::Fun(ps, _) = &f.ty else { return None };
            // the callee is an expression of its own, evaluated before the arguments: a name, a ticked
            // name, or an element of an array of functions picked by a (ticked) index
            let callee = match self.tape.weighted(&[5, 2, 1]) {
                0 => Expr::Var(f.name.clone()),
                1 => {
                    self.label("computed callee");
                    self.maybe_tick(Expr::Var(f.name.clone()), &f.ty)
                }
                _ => {
                    self.label("computed callee");
                    let same: Vec<&Var> = funs.iter().filter(|g| g.ty == f.ty).collect();
                    let g = same[self.tape.below(same.len())].name.clone();
                    let at = self.tape.below(2);
                    let items = if at == 0 { vec![Expr::Var(f.name.clone()), Expr::Var(g)] } else { vec![Expr::Var(g), Expr::Var(f.name.clone())] };
                    let index = self.maybe_tick(Expr::Int(at as i64), &Ty::Int);
                    Expr::Index(Box::new(Expr::Array(items)), Box::new(index))
                }
            };
            let args = ps.iter().map(|p| self.expr(p, depth - 1)).collect();
            self.label("call of a named value");
            return Some(Expr::Call(Box::new(callee), args));
        }
        if depth >= 2 && self.tape.chance(1, 2) {
            // immediately applied lambda
            let pt = self.gen_ty(1);
            let f = self.lambda(std::slice::from_ref(&pt), want, depth - 1);
            let arg = self.expr(&pt, depth - 1);
            self.label("immediately applied function");
            return Some(Expr::Call(Box::new(f), vec![arg]));
        }
        None
    }

    // ---------- iterators ----------

    /// an iterator expression with element type `elem`
    fn iter_expr(&mut self, elem: &Ty, depth: usize) -> Expr {
        let it_ty = Ty::iter_of(elem.clone());
        let known: Vec<Var> = self.vars_of(|t| crate::ty::sub(t, &it_ty)).into_iter().filter(|v| self.iterators.contains(&v.name)).collect();
        if depth >= 1 && matches!(elem, Ty::Int | Ty::Str | Ty::Bool | Ty::Float) && self.tape.chance(1, 6) {
            // a type filter that changes the element type: over a source of another scalar type (nothing
            // passes, but the source is pulled to its end and the stages below run), or over a
            // mixed array
            let other = self.gen_scalar_ty();
            self.label("type filter to another type");
            if self.tape.bool() {
                let inner = self.iter_expr(&other, depth - 1);
                return Expr::TypeFilter(Box::new(inner), elem.clone());
            }
            let n = self.tape.below(5);
            let items: Vec<Expr> = (0..n).map(|_| if self.tape.bool() { self.expr(elem, depth - 1) } else { self.expr(&other, depth - 1) }).collect();
            let source = if items.is_empty() { self.empty_arr(elem) } else { Expr::Array(items) };
            return Expr::TypeFilter(Box::new(Expr::Iter(Box::new(source))), elem.clone());
        }
        if let Ty::Arr(inner) = elem
            && depth >= 1
            && matches!(**inner, Ty::Int | Ty::Str | Ty::Bool | Ty::Float)
            && self.tape.chance(1, 3)
        {
            // a type filter for an array type over arrays built at run time from union-typed expressions
            // that hold the element type (the label of such an array is what it holds), and over arrays of
            // another element type
            self.label("type filter for an array type over arrays built from union-typed elements");
            // (one of the three other scalar types; no loop: an exhausted tape answers 0 for ever)
            let others: Vec<Ty> = scalar_types().into_iter().filter(|t| *t != **inner).collect();
            let other = others[self.tape.below(others.len())].clone();
            let n = 1 + self.tape.below(4);
            let mut rows = vec![];
            for _ in 0..n {
                let row = match self.tape.weighted(&[3, 3, 2]) {
                    0 => {
                        let m = 1 + self.tape.below(2);
                        Expr::Array((0..m).map(|_| self.expr(inner, depth - 1)).collect())
                    }
                    1 => {
                        // `[[e, other][0], e2]`: statically an array of the union, at run time of the member
                        let e = self.expr(inner, depth - 1);
                        let pick = Expr::Index(Box::new(Expr::Array(vec![e, self.leaf(&other)])), Box::new(Expr::Int(0)));
                        let mut items = vec![pick];
                        if self.tape.bool() {
                            items.push(self.expr(inner, depth - 1));
                        }
                        Expr::Array(items)
                    }
                    _ => Expr::Array(vec![self.expr(&other, depth - 1)]),
                };
                rows.push(row);
            }
            return Expr::TypeFilter(Box::new(Expr::Iter(Box::new(Expr::Array(rows)))), elem.clone());
        }
        if let Ty::Tup(parts) = elem
            && depth >= 1
            && parts.iter().all(|p| matches!(p, Ty::Int | Ty::Str | Ty::Bool | Ty::Float))
            && self.tape.chance(1, 3)
        {
            // a type filter for a tuple type over tuples of other lengths and other components
            self.label("type filter for a tuple type over mixed tuples");
            let n = 1 + self.tape.below(5);
            let mut items = vec![];
            for _ in 0..n {
                let near = match self.tape.weighted(&[3, 2, 2, 2, 1]) {
                    0 => elem.clone(),
                    1 => {
                        // one component more (the common prefix fits)
                        let mut ps = parts.clone();
                        ps.push(self.gen_scalar_ty());
                        Ty::Tup(ps)
                    }
                    2 if parts.len() > 2 => Ty::Tup(parts[..parts.len() - 1].to_vec()),
                    2 | 3 => {
                        let mut ps = parts.clone();
                        let k = self.tape.below(ps.len());
                        ps[k] = self.gen_scalar_ty();
                        Ty::Tup(ps)
                    }
                    _ => self.gen_scalar_ty(),
                };
                items.push(self.expr(&near, depth - 1));
            }
            return Expr::TypeFilter(Box::new(Expr::Iter(Box::new(Expr::Array(items)))), elem.clone());
        }
        let mut e = if !known.is_empty() && self.tape.chance(1, 4) {
            Expr::Var(known[self.tape.below(known.len())].name.clone())
        } else {
            self.label("array iterator");
            Expr::Iter(Box::new(self.arr_source(elem, depth)))
        };
        // pipeline stages that keep the element type
        let stages = self.tape.weighted(&[3, 3, 2, 1]);
        for _ in 0..stages {
            match self.tape.weighted(&[3, 3, 1]) {
                0 => {
                    let f = self.lambda(std::slice::from_ref(elem), elem, depth.min(1));
                    let f = self.maybe_tick(f, &Ty::fun(vec![elem.clone()], elem.clone()));
                    self.label("map");
                    e = Expr::Map(Box::new(e), Box::new(f));
                }
                1 => {
                    let p = self.lambda(std::slice::from_ref(elem), &Ty::Bool, depth.min(1));
                    let p = self.maybe_tick(p, &Ty::fun(vec![elem.clone()], Ty::Bool));
                    self.label("filter");
                    e = Expr::Filter(Box::new(e), Box::new(p));
                }
                _ => {
                    if matches!(elem, Ty::Int | Ty::Str | Ty::Bool | Ty::Float) {
                        self.label("type filter");
                        e = Expr::TypeFilter(Box::new(e), elem.clone());
                    }
                }
            }
        }
        e
    }

    fn arr_source(&mut self, elem: &Ty, depth: usize) -> Expr {
        let t = Ty::arr(elem.clone());
        if depth >= 2 && self.tape.chance(1, 8) {
            // any array expression, e.g. a collected pipeline: `(it $])~` iterates over a snapshot
            self.label("iterator over a computed array");
            return self.arr_expr(elem, depth - 1);
        }
        if let Some(v) = self.var_of_type(&t)
            && self.tape.chance(1, 3)
        {
            return v;
        }
        let n = self.tape.below(5);
        if n == 0 {
            return self.empty_arr(elem);
        }
        Expr::Array((0..n).map(|_| self.expr(elem, depth.saturating_sub(1))).collect())
    }

    /// an empty array whose static element type is `elem` where that matters: `[]` has element
    /// type never, and `$+` / `$*` choose their neutral element by the static element type
    fn empty_arr(&mut self, elem: &Ty) -> Expr {
        // (`[]` itself is typed `[!]`: its elements would have a type the generator does not track)
        match elem {
            Ty::Never | Ty::Any => Expr::Array(vec![]),
            _ => Expr::Repeat(Box::new(self.leaf(elem)), Box::new(Expr::Int(0))),
        }
    }

    /// an expression of scalar type `t` computed by an iterator reducer
    fn reducer_expr(&mut self, t: &Ty, depth: usize) -> Expr {
        if self.p.iterators == 0 || depth == 0 {
            return self.lit(t);
        }
        match t {
            Ty::Int => {
                let mut it = self.iter_expr(&Ty::Int, depth - 1);
                let which = self.tape.weighted(&[3, 2, 1, 1, 3]);
                if which <= 1 && self.tape.chance(1, 6) {
                    // the iterator of the untyped empty literal: its element type is never at check
                    // time and at run time, and the checker promises int for its sum and product
                    self.label("sum/product over []~");
                    it = Expr::Iter(Box::new(Expr::Array(vec![])));
                }
                match which {
                    0 => {
                        self.label("sum");
                        Expr::Post("$+", Box::new(it))
                    }
                    1 => {
                        self.label("product");
                        Expr::Post("$*", Box::new(it))
                    }
                    2 => Expr::Post("$&", Box::new(it)),
                    3 => Expr::Post("$|", Box::new(it)),
                    _ => {
                        self.label("reduce");
                        // operands in source order: iterator, initial value, function
                        let init = self.expr(&Ty::Int, depth - 1);
                        let f = self.lambda(&[Ty::Int, Ty::Int], &Ty::Int, depth.min(1));
                        let f = self.maybe_tick(f, &Ty::fun(vec![Ty::Int, Ty::Int], Ty::Int));
                        Expr::Reduce(Box::new(it), Box::new(init), Box::new(f))
                    }
                }
            }
            _ => self.lit(t),
        }
    }

    // ---------- statements ----------

    /// body of a function with the given parameters: statements then a top-level `return e`
    fn function_body(&mut self, params: &[(String, Ty)], ret: &Ty, depth: usize, self_name: Option<(&str, Ty)>) -> Vec<Stmt> {
        let saved_ret = self.fn_ret.replace(ret.clone());
        let saved_loop = std::mem::replace(&mut self.in_loop, false);
        self.scopes.push(vec![]);
        if let Some((n, _)) = &self_name {
            // the function's own name is visible inside but never called by generated code
            // (only the bounded recursion template calls itself)
            self.declare(n, Ty::Never);
        }
        for (n, t) in params {
            self.declare_exact(n, t.clone());
        }
        let saved_params = std::mem::replace(&mut self.params, params.to_vec());
        let mut body = vec![];
        let n = if depth == 0 { 0 } else { self.tape.below(3) };
        for _ in 0..n {
            if let Some(s) = self.stmt(depth) {
                body.push(s);
            }
        }
        if *ret == Ty::Void && self.tape.chance(1, 2) {
            // a procedure: no return at the end; it yields () whatever its last statement yields
            self.label("function that runs off its end");
            let t = self.gen_scalar_ty();
            let last = self.expr(&t, depth);
            if self.tape.bool() {
                body.push(Stmt::Expr(last));
            } else {
                let n = self.name_for_decl();
                self.declare(&n, t);
                body.push(Stmt::Let(n, Box::new(Stmt::Expr(last))));
            }
        } else {
            let value = self.expr(ret, depth);
            body.push(Stmt::Return(Some(Box::new(Stmt::Expr(value)))));
        }
        self.scopes.pop();
        self.params = saved_params;
        self.fn_ret = saved_ret;
        self.in_loop = saved_loop;
        body
    }

    fn block(&mut self, depth: usize, max: usize, value: Option<&Ty>) -> Stmt {
        self.scopes.push(vec![]);
        let mut body = vec![];
        let n = self.tape.below(max + 1);
        for _ in 0..n {
            if let Some(s) = self.stmt(depth) {
                body.push(s);
            }
        }
        if let Some(t) = value {
            body.push(Stmt::Expr(self.expr(t, depth)));
        }
        self.scopes.pop();
        Stmt::Block(body)
    }

    /// a declaration of a new variable of a generated type
    fn let_stmt(&mut self, depth: usize) -> Stmt {
        let w_cells = self.p.cells;
        let w_ctl = self.p.control;
        let w_it = self.p.iterators;
        let name = self.name_for_decl();
        let w_mod = if self.scopes.len() <= 2 { self.p.scoping.min(3) } else { 0 };
        let w_imp = if self.scopes.len() <= 2 { self.p.scoping.min(2) } else { 0 };
        match self.tape.weighted(&[6, w_cells, w_ctl, 2, w_it, 1, w_mod, w_imp]) {
            6 => self.module_stmt(name, depth),
            7 => self.import_stmt(name),
            1 => {
                // a cell, or an alias of an existing cell
                let cells = self.writable_cells(|_| true);
                if !cells.is_empty() && self.tape.chance(1, 3) {
                    let c = cells[self.tape.below(cells.len())].clone();
                    self.label("cell alias");
                    self.declare(&name, c.ty.clone());
                    return Stmt::Let(name, Box::new(Stmt::Expr(Expr::Var(c.name))));
                }
                if self.tape.chance(1, 8) {
                    // `[mut int e; n]`: the value is evaluated once, the n elements are one and the same cell
                    let n = self.tape.range(0, 3);
                    let init = self.expr(&Ty::Int, depth.saturating_sub(1));
                    self.label("array of one repeated cell");
                    self.declare(&name, Ty::arr(Ty::cell(Ty::Int)));
                    return Stmt::Let(name, Box::new(Stmt::Expr(Expr::Repeat(Box::new(Expr::MutNew(Ty::Int, Box::new(init))), Box::new(Expr::Int(n))))));
                }
                // `mut x` without a declared type, x a variable whose static type is a union: the cell is a
                // `mut (A|B)` whatever x turns out to be
                if self.tape.chance(1, 6) {
                    // `x := [a, b][k]` with literal a, b of two scalar types: a constant whose static type is
                    // exactly a|b (recorded like a parameter: its declared type is its static type)
                    let (ta, tb) = (self.gen_scalar_ty(), self.gen_scalar_ty());
                    if ta != tb {
                        let (a, b) = (self.lit(&ta), self.lit(&tb));
                        let k = self.tape.range(-2, 1);
                        let u = ta.or(tb);
                        self.label("constant of an exactly known union type");
                        self.declare_exact(&name, u);
                        return Stmt::Let(name, Box::new(Stmt::Expr(Expr::Index(Box::new(Expr::Array(vec![a, b])), Box::new(Expr::Int(k))))));
                    }
                }
                let unions: Vec<Var> = self
                    .visible()
                    .into_iter()
                    .filter(|v| v.exact && matches!(&v.ty, Ty::Union(ms) if ms.iter().all(|m| matches!(m, Ty::Int | Ty::Bool | Ty::Str | Ty::Float))))
                    .collect();
                // (only inside function bodies: at the top level a REPL session knows such a variable by its
                // value, and the type of the cell follows - recorded finding of C17)
                if self.fn_ret.is_some() && !unions.is_empty() && self.tape.chance(1, 2) {
                    let u = unions[self.tape.below(unions.len())].clone();
                    self.label("cell without a declared type from a union-typed variable");
                    self.declare(&name, Ty::cell(u.ty.clone()));
                    return Stmt::Let(name, Box::new(Stmt::Expr(Expr::MutAuto(u.ty.clone(), Box::new(Expr::Var(u.name))))));
                }
                let inner = match self.tape.weighted(&[5, 2, 2, 1, 2]) {
                    0 => Ty::Int,
                    1 => Ty::Str,
                    2 => Ty::Int.or(Ty::Str),
                    3 => Ty::arr(Ty::Int),
                    _ => Ty::Float,
                };
                let init = if inner == Ty::Float && self.tape.chance(1, 3) {
                    Expr::Float(*self.tape.pick(&[0.0, -0.0]))
                } else {
                    self.expr(&inner, depth.saturating_sub(1))
                };
                self.label("cell");
                self.declare(&name, Ty::cell(inner.clone()));
                Stmt::Let(name, Box::new(Stmt::Expr(Expr::MutNew(inner, Box::new(init)))))
            }
            2 => {
                // value of a conditional statement: a union when the branches differ
                let (ta, tb) = (self.gen_ty(1), self.gen_ty(1));
                let c = self.expr(&Ty::Bool, depth.saturating_sub(1));
                if self.tape.chance(1, 5) {
                    // both branches the same constant: the condition is still evaluated (for its effects)
                    let t = self.gen_scalar_ty();
                    let v = self.lit(&t);
                    self.label("if as a value with equal constant branches");
                    self.declare(&name, t);
                    // with braces, or (for literals that can stand there) without
                    let braces = self.tape.bool();
                    let branch = |v: &Expr| if braces { Box::new(Stmt::Block(vec![Stmt::Expr(v.clone())])) } else { Box::new(Stmt::Expr(v.clone())) };
                    return Stmt::Let(name, Box::new(Stmt::If(c, branch(&v), Some(branch(&v)))));
                }
                let a = self.block(depth.saturating_sub(1), 1, Some(&ta));
                let b = self.block(depth.saturating_sub(1), 1, Some(&tb));
                self.label("if as a value");
                self.declare(&name, ta.or(tb));
                Stmt::Let(name, Box::new(Stmt::If(c, Box::new(a), Some(Box::new(b)))))
            }
            3 if self.scopes.len() == 1 && self.fn_ret.is_none() && self.p.cells > 0 && self.tape.chance(1, 3) => {
                let mut stmts = self.closure_factory(name, depth);
                let first = stmts.remove(0);
                self.pending.extend(stmts);
                first
            }
            3 => {
                // a function value bound with := (anonymous: cannot call itself)
                let pt: Vec<Ty> = (0..self.tape.below(3)).map(|_| self.gen_ty(1)).collect();
                let r = self.gen_ty(1);
                let f = self.lambda(&pt, &r, depth.saturating_sub(1));
                self.declare(&name, Ty::fun(pt, r));
                Stmt::Let(name, Box::new(Stmt::Expr(f)))
            }
            4 => {
                if self.tape.chance(1, 3) {
                    if self.scopes.len() == 1 && self.fn_ret.is_none() && self.tape.chance(1, 3) {
                        // several top-level statements: the first is returned, the rest are queued
                        let mut stmts = self.recursive_iterator(name);
                        let first = stmts.remove(0);
                        self.pending.extend(stmts);
                        return first;
                    }
                    return self.user_iterator(name, depth);
                }
                // a manual pull from a visible iterator: only the flag is specified once it is exhausted
                let its: Vec<Var> = self
                    .vars_of(|t| matches!(t, Ty::Fun(ps, r) if ps.is_empty() && matches!(&**r, Ty::Tup(ts) if ts.len() == 2 && ts[0] == Ty::Bool)))
                    .into_iter()
                    .filter(|v| self.iterators.contains(&v.name))
                    .collect();
                if !its.is_empty() && self.tape.chance(1, 3) {
                    let it = its[self.tape.below(its.len())].clone();
                    self.label("manual pull");
                    self.declare(&name, Ty::Bool);
                    return Stmt::Let(name, Box::new(Stmt::Expr(Expr::TupleAt(Box::new(Expr::Call(Box::new(Expr::Var(it.name)), vec![])), 0))));
                }
                let elem = if self.tape.bool() { Ty::Int } else { Ty::Str };
                let it = self.iter_expr(&elem, depth.saturating_sub(1));
                self.declare(&name, Ty::iter_of(elem));
                self.iterators.push(name.clone());
                Stmt::Let(name, Box::new(Stmt::Expr(it)))
            }
            5 => {
                let t = self.gen_ty(1);
                let b = self.block(depth.saturating_sub(1), 2, Some(&t));
                self.label("block as a value");
                self.declare(&name, t);
                Stmt::Let(name, Box::new(b))
            }
            _ => {
                let t = self.gen_ty(2);
                let e = self.expr(&t, depth);
                self.declare(&name, t);
                Stmt::Let(name, Box::new(Stmt::Expr(e)))
            }
        }
    }

    /// `name := (() -> (bool, int) { val := *i; if val < n { i += 1; return (true, f(val)); } return (false, filler); })`
    /// over a fresh counter cell: a user-written stateful iterator whose body declares locals
    /// (with names from the shared pool) and whose exhausted filler is an explicit value
    /// `{ k := mut 0; name := () -> (bool, int) { v := *k; k += 1; if v >= n { return (false, f); }; if v % 2 == 0 { return name(); }; return (true, v); }; name }`
    /// a named iterator that skips elements by calling itself by name; the caller may save it under
    /// another name and re-declare the original name afterwards
    /// `mk := (n: int) -> () -> int { c := mut int n; return () -> int { c += <step>; return *c; }; };
    ///  a := mk(e1); b := mk(e2)`: each call of the factory makes a cell of its own, and each closure
    /// keeps the cell and the parameter of the call that made it
    fn closure_factory(&mut self, name: String, depth: usize) -> Vec<Stmt> {
        self.label("closure factory");
        let mk = self.fresh_name("mk");
        let cell = NAMES[self.tape.below(4)].to_string();
        let param = if self.tape.bool() { "n".to_string() } else { NAMES[self.tape.below(4)].to_string() };
        let (cell, param) = if cell == param { (cell, "n".to_string()) } else { (cell, param) };
        let declared = self.tape.bool();
        // inner closure: c += step; return *c (+ n)
        let step = Expr::Int(self.tape.range(1, 3));
        let ret_inner = if self.tape.bool() {
            Expr::Deref(Box::new(Expr::Var(cell.clone())))
        } else {
            Expr::Bin("+", Box::new(Expr::Deref(Box::new(Expr::Var(cell.clone())))), Box::new(Expr::Var(param.clone())))
        };
        let inner = Expr::Lambda(
            vec![],
            Ty::Int,
            vec![
                Stmt::Expr(Expr::Assign("+=", Box::new(Expr::Var(cell.clone())), Box::new(step))),
                Stmt::Return(Some(Box::new(Stmt::Expr(ret_inner)))),
            ],
        );
        let init = if declared { Expr::MutNew(Ty::Int, Box::new(Expr::Int(0))) } else { Expr::MutNew(Ty::Int, Box::new(Expr::Var(param.clone()))) };
        let closure_ty = Ty::fun(vec![], Ty::Int);
        let body = vec![Stmt::Let(cell.clone(), Box::new(Stmt::Expr(init))), Stmt::Return(Some(Box::new(Stmt::Expr(inner))))];
        let mut out = vec![Stmt::FnDecl(mk.clone(), vec![(param, Ty::Int)], closure_ty.clone(), body)];
        self.declare(&mk, Ty::fun(vec![Ty::Int], closure_ty.clone()));
        let a1 = self.expr(&Ty::Int, depth.saturating_sub(1));
        out.push(Stmt::Let(name.clone(), Box::new(Stmt::Expr(Expr::Call(Box::new(Expr::Var(mk.clone())), vec![a1])))));
        self.declare(&name, closure_ty.clone());
        let second = self.name_for_decl();
        if second != name {
            let a2 = self.expr(&Ty::Int, depth.saturating_sub(1));
            out.push(Stmt::Let(second.clone(), Box::new(Stmt::Expr(Expr::Call(Box::new(Expr::Var(mk)), vec![a2])))));
            self.declare(&second, closure_ty);
        }
        // call them a few times so that their states become visible
        for _ in 0..1 + self.tape.below(3) {
            let which = if self.tape.bool() { name.clone() } else { second.clone() };
            let v = self.fresh_name("v");
            out.push(Stmt::Let(v.clone(), Box::new(Stmt::Expr(Expr::Call(Box::new(Expr::Var(which)), vec![])))));
            self.declare(&v, Ty::Int);
        }
        out
    }

    fn recursive_iterator(&mut self, name: String) -> Vec<Stmt> {
        self.label("iterator calling itself by name");
        let cell = self.fresh_name("k");
        let own = ["f", "g"][self.tape.below(2)].to_string();
        let local = NAMES[self.tape.below(4)].to_string();
        let n = self.tape.range(1, 5);
        let filler = self.tape.range(-9, 9);
        let v = || Expr::Var(local.clone());
        let body = vec![
            Stmt::Let(local.clone(), Box::new(Stmt::Expr(Expr::Deref(Box::new(Expr::Var(cell.clone())))))),
            Stmt::Expr(Expr::Assign("+=", Box::new(Expr::Var(cell.clone())), Box::new(Expr::Int(1)))),
            Stmt::If(
                Expr::Bin(">=", Box::new(v()), Box::new(Expr::Int(n))),
                Box::new(Stmt::Block(vec![Stmt::Return(Some(Box::new(Stmt::Expr(Expr::Tuple(vec![Expr::Bool(false), Expr::Int(filler)])))))])),
                None,
            ),
            Stmt::If(
                Expr::Bin("==", Box::new(Expr::Bin("%", Box::new(v()), Box::new(Expr::Int(2)))), Box::new(Expr::Int(0))),
                Box::new(Stmt::Block(vec![Stmt::Return(Some(Box::new(Stmt::Expr(Expr::Call(Box::new(Expr::Var(own.clone())), vec![])))))])),
                None,
            ),
            Stmt::Return(Some(Box::new(Stmt::Expr(Expr::Tuple(vec![Expr::Bool(true), v()]))))),
        ];
        let it_ty = Ty::iter_of(Ty::Int);
        // k := mut 0; own := () -> (bool, int) {..}; name := own; own := <another iterator>
        let mut out = vec![
            Stmt::Let(cell.clone(), Box::new(Stmt::Expr(Expr::MutNew(Ty::Int, Box::new(Expr::Int(0)))))),
            Stmt::FnDecl(own.clone(), vec![], Ty::Tup(vec![Ty::Bool, Ty::Int]), body),
        ];
        self.declare(&cell, Ty::cell(Ty::Int));
        self.declare(&own, it_ty.clone());
        if name != own {
            out.push(Stmt::Let(name.clone(), Box::new(Stmt::Expr(Expr::Var(own.clone())))));
            self.declare(&name, it_ty.clone());
            self.iterators.push(name.clone());
            if self.tape.bool() {
                // the original name now denotes something else; the saved iterator must still call itself
                let other = Expr::Iter(Box::new(Expr::Array(vec![Expr::Int(100), Expr::Int(200)])));
                out.push(Stmt::Let(own.clone(), Box::new(Stmt::Expr(other))));
                self.declare(&own, it_ty);
                self.iterators.push(own);
                self.label("iterator's own name re-declared after it was saved");
            } else {
                self.iterators.push(own);
            }
        } else {
            self.iterators.push(own);
        }
        // consume it right away through a randomly chosen operator (every call path must bind the
        // iterator's own name)
        let consumer = self.fresh_name("v");
        let it = Expr::Var(name.clone());
        let (expr, ty) = match self.tape.below(6) {
            0 => (Expr::Post("$]", Box::new(it)), Ty::arr(Ty::Int)),
            1 => (Expr::Post("$+", Box::new(it)), Ty::Int),
            2 => (
                Expr::Reduce(
                    Box::new(it),
                    Box::new(Expr::Int(0)),
                    Box::new(Expr::Lambda(
                        vec![("p0".into(), Ty::Int), ("p1".into(), Ty::Int)],
                        Ty::Int,
                        vec![Stmt::Return(Some(Box::new(Stmt::Expr(Expr::Bin("+", Box::new(Expr::Bin("*", Box::new(Expr::Var("p0".into())), Box::new(Expr::Int(10)))), Box::new(Expr::Var("p1".into())))))))],
                    )),
                ),
                Ty::Int,
            ),
            3 => (
                Expr::Partition(
                    Box::new(it),
                    Box::new(Expr::Lambda(vec![("p0".into(), Ty::Int)], Ty::Bool, vec![Stmt::Return(Some(Box::new(Stmt::Expr(Expr::Bin(">", Box::new(Expr::Var("p0".into())), Box::new(Expr::Int(1)))))))])),
                ),
                Ty::Tup(vec![Ty::arr(Ty::Int), Ty::arr(Ty::Int)]),
            ),
            4 => (Expr::Post("$]", Box::new(Expr::TypeFilter(Box::new(it), Ty::Int))), Ty::arr(Ty::Int)),
            _ => (
                Expr::Post(
                    "$]",
                    Box::new(Expr::Map(
                        Box::new(it),
                        Box::new(Expr::Lambda(vec![("p0".into(), Ty::Int)], Ty::Int, vec![Stmt::Return(Some(Box::new(Stmt::Expr(Expr::Bin("+", Box::new(Expr::Var("p0".into())), Box::new(Expr::Int(1)))))))])),
                    )),
                ),
                Ty::arr(Ty::Int),
            ),
        };
        if self.tape.chance(2, 3) {
            out.push(Stmt::Let(consumer.clone(), Box::new(Stmt::Expr(expr))));
            self.declare(&consumer, ty);
        }
        out
    }

    fn user_iterator(&mut self, name: String, depth: usize) -> Stmt {
        self.label("user-written iterator");
        let cell = self.fresh_name("k");
        let n = self.tape.range(0, 4);
        let local = NAMES[self.tape.below(4)].to_string();
        let filler = self.tape.range(-9, 9);
        // body of the iterator closure
        self.scopes.push(vec![]);
        self.declare(&cell, Ty::cell(Ty::Int));
        self.scopes.push(vec![]);
        self.declare(&local, Ty::Int);
        let saved_ret = self.fn_ret.replace(Ty::Tup(vec![Ty::Bool, Ty::Int]));
        let saved_loop = std::mem::replace(&mut self.in_loop, false);
        let produced = self.expr(&Ty::Int, depth.min(2));
        self.fn_ret = saved_ret;
        self.in_loop = saved_loop;
        self.scopes.pop();
        self.scopes.pop();
        let body = vec![
            Stmt::Let(local.clone(), Box::new(Stmt::Expr(Expr::Deref(Box::new(Expr::Var(cell.clone())))))),
            Stmt::If(
                Expr::Bin("<", Box::new(Expr::Var(local.clone())), Box::new(Expr::Int(n))),
                Box::new(Stmt::Block(vec![
                    Stmt::Expr(Expr::Assign("+=", Box::new(Expr::Var(cell.clone())), Box::new(Expr::Int(1)))),
                    Stmt::Return(Some(Box::new(Stmt::Expr(Expr::Tuple(vec![Expr::Bool(true), produced]))))),
                ])),
                None,
            ),
            Stmt::Return(Some(Box::new(Stmt::Expr(Expr::Tuple(vec![Expr::Bool(false), Expr::Int(filler)]))))),
        ];
        let it_ty = Ty::iter_of(Ty::Int);
        let closure = Expr::Lambda(vec![], Ty::Tup(vec![Ty::Bool, Ty::Int]), body);
        // the counter cell is created in a block whose value is the closure
        let block = Stmt::Block(vec![
            Stmt::Let(cell, Box::new(Stmt::Expr(Expr::MutNew(Ty::Int, Box::new(Expr::Int(0)))))),
            Stmt::Expr(closure),
        ]);
        self.declare(&name, it_ty);
        self.iterators.push(name.clone());
        Stmt::Let(name, Box::new(block))
    }

    fn fn_decl(&mut self, depth: usize) -> Stmt {
        let name = if self.tape.chance(self.p.scoping.min(6), 8) { ["f", "g"][self.tape.below(2)].to_string() } else { self.fresh_name("fn") };
        let recursive = self.tape.chance(1, 3);
        let r = self.gen_ty(1);
        let r = if !recursive && self.tape.chance(1, 6) { Ty::Void } else { r };
        if recursive {
            // f(n): if n <= 0 { return base } ...; return combine(f(n - 1))
            self.label("recursive function");
            let params = vec![("n".to_string(), Ty::Int)];
            let fty = Ty::fun(vec![Ty::Int], r.clone());
            self.scopes.push(vec![]);
            self.declare(&name, Ty::Never);
            self.declare("n", Ty::Int);
            let saved_ret = self.fn_ret.replace(r.clone());
            let saved_loop = std::mem::replace(&mut self.in_loop, false);
            let base = self.expr(&r, 1);
            let rec_call = Expr::Call(Box::new(Expr::Var(name.clone())), vec![Expr::Bin("-", Box::new(Expr::Var("n".into())), Box::new(Expr::Int(1)))]);
            let rname = self.fresh_name("r");
            self.declare(&rname, r.clone());
            let tail = self.expr(&r, 1);
            self.fn_ret = saved_ret;
            self.in_loop = saved_loop;
            self.scopes.pop();
            let body = vec![
                // recursion depth is bounded whatever the argument (the result may double per level)
                Stmt::If(
                    Expr::Bin(
                        "||",
                        Box::new(Expr::Bin("<=", Box::new(Expr::Var("n".into())), Box::new(Expr::Int(0)))),
                        Box::new(Expr::Bin(">", Box::new(Expr::Var("n".into())), Box::new(Expr::Int(6)))),
                    ),
                    Box::new(Stmt::Block(vec![Stmt::Return(Some(Box::new(Stmt::Expr(base))))])),
                    None,
                ),
                Stmt::Let(rname, Box::new(Stmt::Expr(rec_call))),
                Stmt::Return(Some(Box::new(Stmt::Expr(tail)))),
            ];
            self.declare(&name, fty);
            return Stmt::FnDecl(name, params, r, body);
        }
        let own_name_param = self.tape.chance(self.p.scoping.min(4), 24);
        let params: Vec<(String, Ty)> = (0..self.tape.below(3) + own_name_param as usize)
            .map(|i| {
                let n = if i == 0 && own_name_param {
                    // a parameter spelled like the function itself: the parameter wins inside the body
                    name.clone()
                } else if self.tape.chance(self.p.scoping.min(6), 10) {
                    NAMES[self.tape.below(4)].to_string()
                } else if self.tape.chance(1, 5) {
                    // a parameter (a run-time value, never folded away) spelled like a helper name
                    self.label("parameter named like an internal helper name");
                    self.tape.pick(&INTERNAL_NAMES).to_string()
                } else if self.tape.chance(1, 8) {
                    self.label("parameter whose name begins with a word of the language");
                    self.tape.pick(&KEYWORD_PREFIXED_NAMES).to_string()
                } else {
                    format!("q{i}")
                };
                (n, self.gen_ty(1))
            })
            .collect();
        if own_name_param {
            self.label("parameter named like its function");
        }
        // parameter names must be distinct
        let mut seen: Vec<String> = vec![];
        let params: Vec<(String, Ty)> = params
            .into_iter()
            .enumerate()
            .map(|(i, (n, t))| if seen.contains(&n) { (format!("q{i}"), t) } else { seen.push(n.clone()); (n, t) })
            .collect();
        let fty = Ty::fun(params.iter().map(|(_, t)| t.clone()).collect(), r.clone());
        let body = self.function_body(&params, &r, depth.saturating_sub(1), Some((&name, fty.clone())));
        self.label("function declaration");
        self.declare(&name, fty);
        Stmt::FnDecl(name, params, r, body)
    }

    fn loop_stmt(&mut self, depth: usize) -> Stmt {
        let saved = std::mem::replace(&mut self.in_loop, true);
        let counter = self.fresh_name("k");
        let bound = self.tape.range(1, 4);
        // the counter and the loop share one block
        self.scopes.push(vec![]);
        self.declare(&counter, Ty::cell(Ty::Int));
        let decl = Stmt::Let(counter.clone(), Box::new(Stmt::Expr(Expr::MutNew(Ty::Int, Box::new(Expr::Int(0))))));
        let inc = Stmt::Expr(Expr::Assign("+=", Box::new(Expr::Var(counter.clone())), Box::new(Expr::Int(1))));
        let cur = Expr::Deref(Box::new(Expr::Var(counter.clone())));
        let kind = self.tape.below(5);
        let s = match kind {
            4 => {
                // loop { k += 1; body; if *k < bound { continue; } body; break; }  (runs `bound` times, ends in a bare break)
                self.label("loop ending in break");
                self.scopes.push(vec![]);
                // safety exit so that generated `continue`s cannot make the loop endless
                let guard = Stmt::If(Expr::Bin(">", Box::new(cur.clone()), Box::new(Expr::Int(bound + 3))), Box::new(Stmt::Block(vec![Stmt::Break])), None);
                let mut body = vec![inc, guard];
                for _ in 0..self.tape.below(2) {
                    if let Some(s) = self.stmt(depth.saturating_sub(1)) {
                        body.push(s);
                    }
                }
                if self.tape.bool() {
                    body.push(Stmt::If(Expr::Bin("<", Box::new(cur), Box::new(Expr::Int(bound))), Box::new(Stmt::Block(vec![Stmt::Continue])), None));
                } else {
                    let c = self.expr(&Ty::Bool, depth.saturating_sub(1));
                    body.push(Stmt::If(c, Box::new(Stmt::Block(vec![Stmt::Break])), None));
                }
                for _ in 0..self.tape.below(2) {
                    if let Some(s) = self.stmt(depth.saturating_sub(1)) {
                        body.push(s);
                    }
                }
                body.push(Stmt::Break);
                self.scopes.pop();
                Stmt::Loop(Box::new(Stmt::Block(body)))
            }
            0 => {
                // loop { k += 1; if *k > bound { break; } body }
                self.label("loop");
                self.scopes.push(vec![]);
                let mut body = vec![inc, Stmt::If(Expr::Bin(">", Box::new(cur), Box::new(Expr::Int(bound))), Box::new(Stmt::Block(vec![Stmt::Break])), None)];
                for _ in 0..1 + self.tape.below(2) {
                    if let Some(s) = self.stmt(depth.saturating_sub(1)) {
                        body.push(s);
                    }
                }
                self.scopes.pop();
                Stmt::Loop(Box::new(Stmt::Block(body)))
            }
            1 => {
                // while *k < bound { k += 1; body }
                self.label("while");
                self.scopes.push(vec![]);
                let mut body = vec![inc];
                for _ in 0..1 + self.tape.below(2) {
                    if let Some(s) = self.stmt(depth.saturating_sub(1)) {
                        body.push(s);
                    }
                }
                self.scopes.pop();
                Stmt::While(Expr::Bin("<", Box::new(cur), Box::new(Expr::Int(bound))), Box::new(Stmt::Block(body)))
            }
            2 => {
                // for x in iterator { body }
                self.label("for");
                let mixed = self.tape.chance(1, 3);
                let members = vec![self.gen_dispatch_ty(), self.gen_dispatch_ty()];
                let elem = if mixed { Ty::union(members.clone()) } else if self.tape.bool() { Ty::Int } else { Ty::Str };
                let it = if mixed {
                    // elements of different run-time types: the same match runs on each of them
                    let n = 2 + self.tape.below(4);
                    Expr::Iter(Box::new(Expr::Array((0..n).map(|_| self.expr(&elem, depth.saturating_sub(1))).collect())))
                } else {
                    self.iter_expr(&elem, depth.saturating_sub(1))
                };
                // now and then the iterator is read from a cell that the body overwrites with another
                // iterator: the loop keeps the one it started with
                let mut prelude_cell = None;
                let it = if !mixed && self.tape.chance(1, 6) {
                    let cell = self.fresh_name("ci");
                    self.label("for over an iterator read from a cell that the body reassigns");
                    prelude_cell = Some((cell.clone(), Stmt::Let(cell.clone(), Box::new(Stmt::Expr(Expr::MutNew(Ty::iter_of(elem.clone()), Box::new(it)))))));
                    Expr::Deref(Box::new(Expr::Var(cell)))
                } else {
                    it
                };
                let var = self.binder_name();
                self.scopes.push(vec![]);
                self.declare(&var, elem.clone());
                let mut body = vec![];
                if let Some((cell, _)) = &prelude_cell {
                    // (generated inside the body's scope: the loop variable may hide an outer name)
                    let other = self.iter_expr(&elem, depth.saturating_sub(1));
                    body.push(Stmt::Expr(Expr::Assign("=", Box::new(Expr::Var(cell.clone())), Box::new(other))));
                }
                if mixed {
                    self.label("match repeated on values of different types");
                    body.push(self.match_on(Expr::Var(var.clone()), members, depth.saturating_sub(1), None));
                }
                for _ in 0..1 + self.tape.below(2) {
                    if let Some(s) = self.stmt(depth.saturating_sub(1)) {
                        body.push(s);
                    }
                }
                self.scopes.pop();
                let for_stmt = Stmt::For(var, it, Box::new(Stmt::Block(body)));
                if let Some((_, decl)) = prelude_cell {
                    self.in_loop = saved;
                    self.scopes.pop();
                    return Stmt::Block(vec![decl, Stmt::Let(counter.clone(), Box::new(Stmt::Expr(Expr::MutNew(Ty::Int, Box::new(Expr::Int(0)))))), for_stmt]);
                }
                for_stmt
            }
            _ => {
                // while v: int = <int until the counter runs out, then a string> { body }
                self.label("while-set");
                let var = self.binder_name();
                let src = self.fresh_name("w");
                // w := () -> int|string { k += 1; if *k > bound { return "end"; } return *k; }
                let fbody = vec![
                    inc,
                    Stmt::If(
                        Expr::Bin(">", Box::new(cur.clone()), Box::new(Expr::Int(bound))),
                        Box::new(Stmt::Block(vec![Stmt::Return(Some(Box::new(Stmt::Expr(Expr::Str("end".into())))))])),
                        None,
                    ),
                    Stmt::Return(Some(Box::new(Stmt::Expr(cur)))),
                ];
                let fty = Ty::fun(vec![], Ty::Int.or(Ty::Str));
                let fdecl = Stmt::Let(src.clone(), Box::new(Stmt::Expr(Expr::Lambda(vec![], Ty::Int.or(Ty::Str), fbody))));
                self.declare(&src, fty);
                self.scopes.push(vec![]);
                self.declare(&var, Ty::Int);
                let mut body = vec![];
                for _ in 0..1 + self.tape.below(2) {
                    if let Some(s) = self.stmt(depth.saturating_sub(1)) {
                        body.push(s);
                    }
                }
                self.scopes.pop();
                self.scopes.pop();
                self.in_loop = saved;
                return Stmt::Block(vec![decl, fdecl, Stmt::WhileSet(var, Ty::Int, Expr::Call(Box::new(Expr::Var(src)), vec![]), Box::new(Stmt::Block(body)))]);
            }
        };
        self.in_loop = saved;
        self.scopes.pop();
        Stmt::Block(vec![decl, s])
    }

    /// `match <array built along one route> { <other content> => .., <the same content, built along another route> => .., => .. }`:
    /// value arms compare arrays by content, whatever element type the array is labelled with
    /// a tuple matched by value against tuples that agree with it on a prefix (one component more, one
    /// less) before the equal one: tuples of different lengths are different values
    fn match_tuple_by_value(&mut self, depth: usize, value: Option<&Ty>) -> Stmt {
        self.label("match on a tuple by value among prefix tuples");
        let n = 2 + self.tape.below(2);
        let xs: Vec<Expr> = (0..n).map(|_| self.lit(&Ty::Int)).collect();
        let scrutinee = if self.tape.bool() {
            Expr::Tuple(xs.clone())
        } else {
            // built at run time
            Expr::Tuple(xs.iter().map(|x| Expr::Bin("+", Box::new(x.clone()), Box::new(Expr::Int(0)))).collect())
        };
        let mut arms = vec![];
        let mut longer = xs.clone();
        longer.push(self.lit(&Ty::Int));
        let shorter: Vec<Expr> = xs[..n - 1].to_vec();
        for decoy in [longer, shorter] {
            if self.tape.chance(2, 3) {
                let cand = if decoy.len() == 1 { decoy[0].clone() } else { Expr::Tuple(decoy) };
                let body = self.block(depth.saturating_sub(1), 1, value);
                arms.push(Arm::Values(vec![cand], body));
            }
        }
        let body = self.block(depth.saturating_sub(1), 1, value);
        arms.push(Arm::Values(vec![Expr::Tuple(xs)], body));
        arms.push(Arm::Other(self.block(depth.saturating_sub(1), 1, value)));
        Stmt::Match(scrutinee, arms)
    }

    fn match_array_by_value(&mut self, depth: usize, value: Option<&Ty>) -> Stmt {
        self.label("match on an array by value");
        let n = 1 + self.tape.below(3);
        let xs: Vec<Expr> = (0..n).map(|_| self.lit(&Ty::Int)).collect();
        let extra = self.lit(&Ty::Str);
        let route = |g: &mut Self, xs: &[Expr]| -> Expr {
            match g.tape.below(5) {
                0 => Expr::Array(xs.to_vec()),
                1 => {
                    // a slice of a longer, mixed array
                    let mut padded = xs.to_vec();
                    padded.push(extra.clone());
                    Expr::Slice(Box::new(Expr::Array(padded)), None, Some(Box::new(Expr::Int(xs.len() as i64))), None)
                }
                2 => {
                    let k = g.tape.below(xs.len() + 1);
                    Expr::Bin("+", Box::new(Expr::Array(xs[..k].to_vec())), Box::new(Expr::Array(xs[k..].to_vec())))
                }
                3 => {
                    // collected from a mixed array through a type filter
                    let mut mixed = vec![extra.clone()];
                    mixed.extend(xs.iter().cloned());
                    Expr::Post("$]", Box::new(Expr::TypeFilter(Box::new(Expr::Iter(Box::new(Expr::Array(mixed)))), Ty::Int)))
                }
                _ => Expr::Post("$]", Box::new(Expr::Iter(Box::new(Expr::Array(xs.to_vec()))))),
            }
        };
        let scrutinee = route(self, &xs);
        let mut arms = vec![];
        if self.tape.bool() {
            // a decoy with other content first
            let mut other = xs.clone();
            other.push(Expr::Int(77));
            let body = self.block(depth.saturating_sub(1), 1, value);
            arms.push(Arm::Values(vec![route(self, &other)], body));
        }
        let same = route(self, &xs);
        let cands = if self.tape.bool() { vec![Expr::Array(vec![Expr::Int(78)]), same] } else { vec![same] };
        let body = self.block(depth.saturating_sub(1), 1, value);
        arms.push(Arm::Values(cands, body));
        arms.push(Arm::Other(self.block(depth.saturating_sub(1), 1, value)));
        Stmt::Match(scrutinee, arms)
    }

    fn match_stmt(&mut self, depth: usize, value: Option<&Ty>) -> Stmt {
        if depth >= 1 && self.tape.chance(1, 8) {
            return self.match_array_by_value(depth, value);
        }
        if depth >= 1 && self.tape.chance(1, 10) {
            return self.match_tuple_by_value(depth, value);
        }
        // `match (u, e) { t: (A, C) => .., t: (B, C) => .. }` with u a variable of type A|B: the static
        // type of the scrutinee is one tuple type, its run-time type one of two
        let unions = self.vars_of(|t| matches!(t, Ty::Union(ms) if ms.len() == 2 && ms.iter().all(|m| matches!(m, Ty::Int | Ty::Bool | Ty::Str | Ty::Float))));
        if depth >= 1 && !unions.is_empty() && self.tape.chance(1, 3) {
            let u = unions[self.tape.below(unions.len())].clone();
            let Ty::Union(ms) = &u.ty else { unreachable!() };
            let c = self.gen_scalar_ty();
            let second = self.expr(&c, depth - 1);
            self.label("match on a tuple with a union-typed component");
            let scrutinee = if self.tape.bool() {
                Expr::Tuple(vec![Expr::Var(u.name.clone()), second])
            } else {
                Expr::Tuple(vec![second, Expr::Var(u.name.clone())])
            };
            let first_is_union = matches!(&scrutinee, Expr::Tuple(xs) if matches!(xs[0], Expr::Var(_)));
            let tuple_of = |m: &Ty| if first_is_union { Ty::Tup(vec![m.clone(), c.clone()]) } else { Ty::Tup(vec![c.clone(), m.clone()]) };
            let mut arms = vec![];
            let order: Vec<Ty> = if self.tape.bool() { ms.clone() } else { ms.iter().rev().cloned().collect() };
            for m in &order {
                arms.push(self.type_arm(tuple_of(m), depth, value));
            }
            // (the checker does not distribute a tuple over the union of a component: a default arm is required)
            arms.push(Arm::Other(self.block(depth.saturating_sub(1), 1, value)));
            return Stmt::Match(scrutinee, arms);
        }
        // scrutinee: a union of scalars (run-time type unambiguous)
        let members: Vec<Ty> = {
            let mut ms = vec![self.gen_dispatch_ty(), self.gen_dispatch_ty()];
            if self.tape.bool() {
                ms.push(Ty::Void);
            }
            ms
        };
        let st = Ty::union(members.clone());
        let scrutinee = self.expr(&st, depth.saturating_sub(1));
        self.match_on(scrutinee, members, depth, value)
    }

    fn type_arm(&mut self, t: Ty, depth: usize, value: Option<&Ty>) -> Arm {
        let v = self.binder_name();
        self.scopes.push(vec![]);
        self.declare(&v, t.clone());
        let body = self.block(depth.saturating_sub(1), 1, value);
        self.scopes.pop();
        Arm::Type(v, t, body)
    }

    fn match_on(&mut self, scrutinee: Expr, members: Vec<Ty>, depth: usize, value: Option<&Ty>) -> Stmt {
        self.label("match");
        let st = Ty::union(members.clone());
        let mut arms = vec![];
        if let Some(Ty::Mut(inner)) = members.iter().find(|m| matches!(m, Ty::Mut(i) if matches!(**i, Ty::Int | Ty::Bool | Ty::Str | Ty::Float)))
            && self.tape.bool()
        {
            // cells are invariant: a `mut (A|B)` arm does not take a `mut A` cell
            let other = self.gen_scalar_ty();
            let wide = Ty::cell((**inner).clone().or(if other == **inner { Ty::Void } else { other }));
            if !members.contains(&wide) {
                self.label("arm for a wider cell type first");
                arms.push(self.type_arm(wide, depth, value));
            }
        }
        // value arms first
        for _ in 0..self.tape.below(3) {
            let n = 1 + self.tape.below(2);
            let m = members[self.tape.below(members.len())].clone();
            let cands = (0..n).map(|_| self.expr(&m, depth.saturating_sub(1))).collect();
            let body = self.block(depth.saturating_sub(1), 1, value);
            arms.push(Arm::Values(cands, body));
        }
        match self.tape.weighted(&[3, 3, 3]) {
            0 => {
                // type arms covering every member
                for m in st.members() {
                    arms.push(self.type_arm(m.clone(), depth, value));
                }
                self.label("match with type arms");
            }
            1 => {
                // one member, then a default arm
                if self.tape.bool()
                    && let Some(m) = st.members().first()
                {
                    arms.push(self.type_arm((*m).clone(), depth, value));
                }
                arms.push(Arm::Other(self.block(depth.saturating_sub(1), 1, value)));
            }
            _ => {
                // overlapping type arms, narrower first: the first arm that covers the value wins
                let ms: Vec<Ty> = st.members().into_iter().cloned().collect();
                let first = ms[self.tape.below(ms.len())].clone();
                arms.push(self.type_arm(first.clone(), depth, value));
                if ms.len() > 2 || self.tape.bool() {
                    let second = ms[self.tape.below(ms.len())].clone();
                    arms.push(self.type_arm(first.or(second), depth, value));
                }
                let last = if self.tape.bool() { Ty::Any } else { st.clone() };
                arms.push(self.type_arm(last, depth, value));
                self.label("match with overlapping type arms");
            }
        }
        Stmt::Match(scrutinee, arms)
    }

    /// one statement (None when nothing sensible can be generated)
    pub fn stmt(&mut self, depth: usize) -> Option<Stmt> {
        if !self.spend() {
            return None;
        }
        let w_ctl = self.p.control;
        let w_cells = self.p.cells;
        let in_fn = self.fn_ret.is_some();
        let w_ret = if in_fn { w_ctl } else { 0 };
        let w_brk = if self.in_loop { w_ctl } else { 0 };
        let choice = if depth == 0 { self.tape.weighted(&[5, 0, 0, 0, 0, w_cells, 2]) } else { self.tape.weighted(&[6, 3, w_ctl, w_ctl, w_ctl, w_cells * 2, 2, w_ret, w_brk, 2, 1]) };
        Some(match choice {
            0 => self.let_stmt(depth),
            1 => self.fn_decl(depth),
            2 => {
                // if / else as a statement
                self.label("if");
                let c = self.expr(&Ty::Bool, depth - 1);
                let a = self.block(depth - 1, 2, None);
                let b = if self.tape.bool() { Some(Box::new(self.block(depth - 1, 2, None))) } else { None };
                Stmt::If(c, Box::new(a), b)
            }
            3 => self.match_stmt(depth, None),
            4 => self.loop_stmt(depth),
            5 => {
                // assignment statement on a visible cell
                let cells = self.writable_cells(|_| true);
                if cells.is_empty() {
                    return Some(self.let_stmt(depth));
                }
                let c = cells[self.tape.below(cells.len())].clone();
                let Ty::Mut(inner) = &c.ty else { unreachable!() };
                let inner = (**inner).clone();
                self.label("assignment");
                let (op, vt): (&'static str, Ty) = match &inner {
                    Ty::Int => {
                        let op = *self.tape.pick(&["=", "+=", "-=", "*=", "/=", "%=", "**=", "<<=", ">>=", "&=", "|=", "^="]);
                        (op, Ty::Int)
                    }
                    Ty::Str => (*self.tape.pick(&["=", "+="]), Ty::Str),
                    Ty::Float => (*self.tape.pick(&["=", "+=", "-=", "*=", "/="]), Ty::Float),
                    Ty::Arr(_) => (*self.tape.pick(&["=", "+="]), inner.clone()),
                    other => ("=", other.clone()),
                };
                let compound_rhs = vt == Ty::Int && matches!(op, "/=" | "%=" | "<<=" | ">>=" | "**=") && self.tape.chance(1, 3);
                let own_content = vt == Ty::Int && op == "=" && self.tape.chance(1, 4);
                let value = match op {
                    // `c = *c op (c op= k)`: the old content is read before the right operand updates the cell
                    _ if own_content => {
                        self.label("assignment from the cell's own content and an update of it");
                        let o = *self.tape.pick(&["+", "-", "*"]);
                        let inner_op = *self.tape.pick(&["+=", "=", "*=", "-="]);
                        let k = self.lit(&Ty::Int);
                        let update = Expr::Assign(inner_op, Box::new(Expr::Var(c.name.clone())), Box::new(k));
                        let read = Expr::Deref(Box::new(Expr::Var(c.name.clone())));
                        if self.tape.bool() { Expr::Bin(o, Box::new(read), Box::new(update)) } else { Expr::Bin(o, Box::new(update), Box::new(read)) }
                    }
                    // an unparenthesised operation on the right: the assignment takes all of it
                    _ if compound_rhs => {
                        self.label("compound assignment with an operation on its right");
                        let (a, o, b) = match op {
                            "/=" | "%=" => *self.tape.pick(&[(1i64, "+", 1i64), (3, "-", 1), (1, "*", 3), (0, "+", 0), (2, "-", 3)]),
                            "<<=" | ">>=" => *self.tape.pick(&[(1i64, "+", 2i64), (60, "+", 3), (32, "+", 32), (0, "*", 5), (1, "-", 2)]),
                            _ => *self.tape.pick(&[(1i64, "+", 1i64), (1, "-", 1), (0, "-", 1), (1, "*", 2), (3, "-", 2)]),
                        };
                        Expr::Bin(o, Box::new(Expr::Int(a)), Box::new(Expr::Int(b)))
                    }
                    "/=" | "%=" if vt == Ty::Int => Expr::Int(*self.tape.pick(&[1i64, 2, 3, -1, 0])),
                    "<<=" | ">>=" => Expr::Int(*self.tape.pick(&[0i64, 1, 3, 63, 64])),
                    "**=" => Expr::Int(*self.tape.pick(&[0i64, 1, 2, -1])),
                    _ if vt == Ty::Float && self.tape.chance(1, 3) => {
                        self.label("signed zero stored in a float cell");
                        Expr::Float(*self.tape.pick(&[-0.0, 0.0, -1.0]))
                    }
                    _ => self.expr(&vt, depth.saturating_sub(1)),
                };
                if vt == Ty::Int && matches!(op, "/=" | "%=" | "<<=" | ">>=" | "**=") {
                    self.label("possibly failing compound assignment");
                }
                Stmt::Expr(Expr::Assign(op, Box::new(Expr::Var(c.name)), Box::new(value)))
            }
            6 => {
                // expression statement with an effect: its value is discarded, its operands are evaluated
                match self.tape.weighted(&[4, 1, 1, 1, 1]) {
                    1 => {
                        self.label("discarded array literal");
                        let t = self.gen_scalar_ty();
                        let n = 1 + self.tape.below(3);
                        Stmt::Expr(Expr::Array((0..n).map(|_| self.expr(&t, depth.saturating_sub(1))).collect()))
                    }
                    2 => {
                        self.label("discarded tuple literal");
                        let n = 2 + self.tape.below(2);
                        Stmt::Expr(Expr::Tuple((0..n).map(|_| { let t = self.gen_scalar_ty(); self.expr(&t, depth.saturating_sub(1)) }).collect()))
                    }
                    3 => {
                        self.label("discarded struct literal");
                        let t = self.gen_scalar_ty();
                        Stmt::Expr(Expr::Struct(vec![("a".into(), self.expr(&t, depth.saturating_sub(1))), ("n".into(), self.expr(&Ty::Int, depth.saturating_sub(1)))]))
                    }
                    4 => {
                        // an index whose value is discarded: its operands are still evaluated
                        self.label("discarded index");
                        let n = 1 + self.tape.below(3);
                        let source = Expr::Array((0..n).map(|_| self.expr(&Ty::Int, depth.saturating_sub(1))).collect());
                        let i = self.tape.range(-(n as i64), n as i64 - 1);
                        let index = self.maybe_tick(Expr::Int(i), &Ty::Int);
                        Stmt::Expr(Expr::Index(Box::new(source), Box::new(index)))
                    }
                    _ => {
                        let cells = self.writable_cells(|t| *t == Ty::cell(Ty::Int));
                        if !cells.is_empty() && self.tape.chance(1, 3) {
                            let c = cells[self.tape.below(cells.len())].name.clone();
                            let k = self.lit(&Ty::Int);
                            let update = Expr::Assign(*self.tape.pick(&["+=", "-=", "="]), Box::new(Expr::Var(c)), Box::new(k));
                            if self.tape.bool() {
                                // a cell made and dropped at once: its initial value is still evaluated
                                self.label("discarded cell creation whose initial value updates a cell");
                                return Some(Stmt::Expr(Expr::MutNew(Ty::Int, Box::new(update))));
                            }
                            // the same effectful element written several times: evaluated as often
                            self.label("array of identically spelled effectful elements");
                            let n = 2 + self.tape.below(2);
                            return Some(Stmt::Expr(if self.tape.bool() { Expr::Array(vec![update; n]) } else { Expr::Tuple(vec![update; n]) }));
                        }
                        let t = self.gen_scalar_ty();
                        let e = self.expr(&t, depth);
                        Stmt::Expr(e)
                    }
                }
            }
            7 => {
                let r = self.fn_ret.clone().unwrap();
                self.label("early return");
                let c = self.expr(&Ty::Bool, depth.saturating_sub(1));
                let v = self.expr(&r, depth.saturating_sub(1));
                Stmt::If(c, Box::new(Stmt::Block(vec![Stmt::Return(Some(Box::new(Stmt::Expr(v))))])), None)
            }
            8 => {
                self.label("break/continue");
                let c = self.expr(&Ty::Bool, depth.saturating_sub(1));
                let exit = if self.tape.bool() { Stmt::Break } else { Stmt::Continue };
                Stmt::If(c, Box::new(Stmt::Block(vec![exit])), None)
            }
            9 => {
                // if-set on a union-typed scalar
                self.label("if-set");
                let (ta, tb) = (self.gen_dispatch_ty(), self.gen_dispatch_ty());
                let u = ta.clone().or(tb.clone());
                let e = self.expr(&u, depth.saturating_sub(1));
                let v = self.binder_name();
                // the tested type: one member, the whole union, or any (always matches)
                let ta = match self.tape.weighted(&[3, 2, 1]) {
                    0 => ta,
                    1 => u.clone(),
                    _ => Ty::Any,
                };
                self.scopes.push(vec![]);
                self.declare(&v, ta.clone());
                let a = self.block(depth.saturating_sub(1), 2, None);
                self.scopes.pop();
                let b = if self.tape.bool() { Some(Box::new(self.block(depth.saturating_sub(1), 1, None))) } else { None };
                Stmt::IfSet(v, ta, e, Box::new(a), b)
            }
            _ => {
                // destructuring
                self.label("destructuring");
                let mut pool: Vec<Var> = self
                    .visible()
                    .into_iter()
                    .filter(|v| !v.name.starts_with("tk") && v.name != "log" && !is_counter(&v.name) && v.ty != Ty::Never && !self.iterators.contains(&v.name))
                    .collect();
                if pool.len() >= 2 && self.tape.chance(1, 2) {
                    // the swap / rotation idiom `(a, b) := (b, a)`: every component of the tuple reads the
                    // old binding of a name the statement declares anew; now and then one is a constant
                    self.label("destructuring swap / rotation");
                    let n = if pool.len() >= 3 && self.tape.chance(1, 3) { 3 } else { 2 };
                    let mut chosen = vec![];
                    for _ in 0..n {
                        let i = self.tape.below(pool.len());
                        chosen.push(pool.remove(i));
                    }
                    let mut rhs: Vec<(Expr, Ty, bool)> = (0..n)
                        .map(|i| {
                            let v = &chosen[(i + 1) % n];
                            (Expr::Var(v.name.clone()), v.ty.clone(), v.exact)
                        })
                        .collect();
                    if self.tape.chance(1, 3) {
                        let k = self.tape.below(n);
                        let t = self.gen_scalar_ty();
                        rhs[k] = (self.lit(&t), t, false);
                    }
                    let mut names = vec![];
                    let mut items = vec![];
                    for (v, (e, t, exact)) in chosen.iter().zip(rhs) {
                        names.push(v.name.clone());
                        items.push(e);
                        if exact {
                            self.declare_exact(&v.name, t);
                        } else {
                            self.declare(&v.name, t);
                        }
                    }
                    return Some(Stmt::Destruct(names, Box::new(Stmt::Expr(Expr::Tuple(items)))));
                }
                let (ta, tb) = (self.gen_scalar_ty(), self.gen_scalar_ty());
                let e = self.expr(&Ty::Tup(vec![ta.clone(), tb.clone()]), depth.saturating_sub(1));
                let (na, nb) = (self.name_for_decl(), self.fresh_name("u"));
                let nb = if na == nb { self.fresh_name("u") } else { nb };
                self.declare(&na, ta);
                self.declare(&nb, tb);
                Stmt::Destruct(vec![na, nb], Box::new(Stmt::Expr(e)))
            }
        })
    }

    pub fn program(mut self) -> Program {
        let mut body = vec![];
        let n = 2 + self.tape.below(self.p.top);
        for _ in 0..n {
            if let Some(s) = self.stmt(self.p.depth) {
                body.push(s);
                body.append(&mut self.pending);
            }
        }
        // observe every first-order / cell name visible at the end
        let observed: Vec<(String, Ty)> = self
            .visible()
            .into_iter()
            .filter(|v| !v.name.starts_with("tk"))
            .map(|v| (v.name, v.ty))
            .collect();
        Program { body, tick_types: self.tick_types, observed, labels: self.labels }
    }
}
