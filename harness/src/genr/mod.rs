//! Generators decoded from tapes
pub mod types;
