//! Generators decoded from tapes
pub mod types;
pub mod grammar;
pub mod matrix;
pub mod ast;
pub mod case;
pub mod prog;
pub mod refi;
pub mod nearmiss;
