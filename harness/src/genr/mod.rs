//! Generators decoded from tapes
pub mod types;
pub mod grammar;
pub mod matrix;
