//! AST of the generated SimpleSL subset and its printer.
use crate::ty::Ty;

#[derive(Clone, Debug, PartialEq)]
pub enum Expr {
    Int(i64),
    Float(f64),
    Bool(bool),
    Str(String),
    Void,
    Var(String),
    Neg(Box<Expr>),
    Not(Box<Expr>),
    Deref(Box<Expr>),
    /// infix value operator (arithmetic, comparison, logic, concatenation)
    Bin(&'static str, Box<Expr>, Box<Expr>),
    Array(Vec<Expr>),
    Repeat(Box<Expr>, Box<Expr>),
    Tuple(Vec<Expr>),
    Struct(Vec<(String, Expr)>),
    Index(Box<Expr>, Box<Expr>),
    Slice(Box<Expr>, Option<Box<Expr>>, Option<Box<Expr>>, Option<Box<Expr>>),
    TupleAt(Box<Expr>, usize),
    Field(Box<Expr>, String),
    Call(Box<Expr>, Vec<Expr>),
    Lambda(Vec<(String, Ty)>, Ty, Vec<Stmt>),
    /// `mut T e`
    MutNew(Ty, Box<Expr>),
    /// `target op value` with op one of = += -= ...
    Assign(&'static str, Box<Expr>, Box<Expr>),
    Iter(Box<Expr>),
    Map(Box<Expr>, Box<Expr>),
    Filter(Box<Expr>, Box<Expr>),
    TypeFilter(Box<Expr>, Ty),
    Partition(Box<Expr>, Box<Expr>),
    Reduce(Box<Expr>, Box<Expr>, Box<Expr>),
    /// postfix reducers: $+ $* $&& $|| $& $| $]
    Post(&'static str, Box<Expr>),
    Len(Box<Expr>),
    /// `tkN(k, e)`: appends k to the log after evaluating e, yields e (N names the tick function of e's type)
    Tick(usize, i64, Box<Expr>),
    /// `mod { ... }`
    Module(Vec<Stmt>),
}

#[derive(Clone, Debug, PartialEq)]
pub enum Arm {
    /// `v1, v2 => body,`
    Values(Vec<Expr>, Stmt),
    /// `name: T => body,`
    Type(String, Ty, Stmt),
    /// `=> body,`
    Other(Stmt),
}

#[derive(Clone, Debug, PartialEq)]
pub enum Stmt {
    /// `x := stm`
    Let(String, Box<Stmt>),
    /// `(a, b) := stm`
    Destruct(Vec<String>, Box<Stmt>),
    /// `f := (params) -> R { body }` (named: may call itself)
    FnDecl(String, Vec<(String, Ty)>, Ty, Vec<Stmt>),
    Expr(Expr),
    Block(Vec<Stmt>),
    If(Expr, Box<Stmt>, Option<Box<Stmt>>),
    IfSet(String, Ty, Expr, Box<Stmt>, Option<Box<Stmt>>),
    Match(Expr, Vec<Arm>),
    Loop(Box<Stmt>),
    While(Expr, Box<Stmt>),
    WhileSet(String, Ty, Expr, Box<Stmt>),
    For(String, Expr, Box<Stmt>),
    Break,
    Continue,
    Return(Option<Box<Stmt>>),
}

/// how literals are printed
#[derive(Clone, Copy, Debug, PartialEq)]
pub enum Hide {
    /// as literals (constants are visible to the folding pass)
    None,
    /// every literal `c` as `(*(mut T c))`
    All,
    /// literal number k (in print order) is hidden iff bit (k % 64) of the mask is set
    Mask(u64),
}

pub struct Printer {
    pub hide: Hide,
    counter: std::cell::Cell<u64>,
}

impl Printer {
    pub fn new(hide: Hide) -> Self {
        Self { hide, counter: std::cell::Cell::new(0) }
    }

    fn hidden(&self) -> bool {
        let k = self.counter.get();
        self.counter.set(k + 1);
        match self.hide {
            Hide::None => false,
            Hide::All => true,
            Hide::Mask(m) => (m >> (k % 64)) & 1 == 1,
        }
    }

    fn lit(&self, ty: &str, text: String) -> String {
        if self.hidden() { format!("(*(mut {ty} {text}))") } else { text }
    }

    pub fn expr(&self, e: &Expr) -> String {
        match e {
            Expr::Int(i) => {
                if *i == i64::MIN {
                    // not a literal: an expression over literals
                    let a = self.lit("int", "9223372036854775807".into());
                    format!("(-{a} - 1)")
                } else if *i < 0 {
                    let a = self.lit("int", format!("{}", -(*i as i128)));
                    format!("(-{a})")
                } else {
                    self.lit("int", i.to_string())
                }
            }
            Expr::Float(f) => {
                if f.is_sign_negative() {
                    let a = self.lit("float", format!("{:?}", -f));
                    format!("(-{a})")
                } else {
                    self.lit("float", format!("{f:?}"))
                }
            }
            Expr::Bool(b) => self.lit("bool", b.to_string()),
            Expr::Str(s) => self.lit("string", crate::lit::escape_string(s)),
            Expr::Void => "()".into(),
            Expr::Var(n) => n.clone(),
            Expr::Neg(x) => format!("(-{})", self.expr(x)),
            Expr::Not(x) => format!("(!{})", self.expr(x)),
            Expr::Deref(x) => format!("(*{})", self.expr(x)),
            Expr::Bin(op, a, b) => format!("({} {op} {})", self.expr(a), self.expr(b)),
            Expr::Array(xs) => format!("[{}]", self.list(xs)),
            Expr::Repeat(v, n) => format!("[{}; {}]", self.expr(v), self.expr(n)),
            Expr::Tuple(xs) => format!("({})", self.list(xs)),
            Expr::Struct(fs) => format!(
                "struct{{{}}}",
                fs.iter().map(|(k, v)| format!("{k} := {}", self.expr(v))).collect::<Vec<_>>().join(", ")
            ),
            Expr::Index(a, i) => format!("{}[{}]", self.postfix_operand(a), self.expr(i)),
            Expr::Slice(a, s, e, st) => {
                let p = |x: &Option<Box<Expr>>| x.as_ref().map(|x| self.expr(x)).unwrap_or_default();
                let base = self.postfix_operand(a);
                if st.is_some() {
                    format!("{base}[{}:{}:{}]", p(s), p(e), p(st))
                } else {
                    format!("{base}[{}:{}]", p(s), p(e))
                }
            }
            Expr::TupleAt(a, k) => format!("{}.{k}", self.postfix_operand(a)),
            Expr::Field(a, f) => format!("{}.{f}", self.postfix_operand(a)),
            Expr::Call(f, args) => format!("{}({})", self.postfix_operand(f), self.list(args)),
            Expr::Lambda(params, ret, body) => format!("({})", self.function(params, ret, body)),
            Expr::MutNew(t, x) => format!("(mut {} {})", t.print(), self.paren(x)),
            Expr::Assign(op, t, v) => format!("({} {op} {})", self.expr(t), self.expr(v)),
            Expr::Iter(a) => format!("({}~)", self.paren(a)),
            Expr::Map(it, f) => format!("({} @ {})", self.paren(it), self.paren(f)),
            Expr::Filter(it, f) => format!("({} ? {})", self.paren(it), self.paren(f)),
            Expr::TypeFilter(it, t) => format!("({} ? {})", self.paren(it), t.print()),
            Expr::Partition(it, f) => format!("({} \\ {})", self.paren(it), self.paren(f)),
            Expr::Reduce(it, init, f) => {
                // `it $ init f`: a parenthesised function literal right after the initial value
                // would be read as a call of the initial value, so a literal goes bare
                let fun = match &**f {
                    Expr::Lambda(ps, r, b) => self.function(ps, r, b),
                    other => self.paren(other),
                };
                format!("({} $ {} {fun})", self.paren(it), self.paren(init))
            }
            Expr::Post(op, it) => format!("({} {op})", self.paren(it)),
            Expr::Len(x) => format!("std.len({})", self.expr(x)),
            Expr::Tick(n, k, x) => format!("tk{n}({k}, {})", self.expr(x)),
            Expr::Module(body) => format!("(mod {{ {} }})", self.stmts(body)),
        }
    }

    /// operand of a postfix form: must be a primary, so compound operands get parentheses
    fn postfix_operand(&self, e: &Expr) -> String {
        match e {
            Expr::Var(_) => self.expr(e),
            _ => self.paren(e),
        }
    }

    fn paren(&self, e: &Expr) -> String {
        let s = self.expr(e);
        if s.starts_with('(') && matching_close(&s) == Some(s.len() - 1) { s } else { format!("({s})") }
    }

    fn list(&self, xs: &[Expr]) -> String {
        xs.iter().map(|x| self.expr(x)).collect::<Vec<_>>().join(", ")
    }

    pub fn function(&self, params: &[(String, Ty)], ret: &Ty, body: &[Stmt]) -> String {
        let ps = params.iter().map(|(n, t)| format!("{n}: {}", t.print())).collect::<Vec<_>>().join(", ");
        let r = if *ret == Ty::Void { String::new() } else { format!(" -> {}", ret.print()) };
        format!("({ps}){r} {{ {} }}", self.stmts(body))
    }

    pub fn stmts(&self, body: &[Stmt]) -> String {
        body.iter().map(|s| format!("{};", self.stmt(s))).collect::<Vec<_>>().join(" ")
    }

    /// body of if / else / loop / arm: always a block (unless it already is one)
    fn body(&self, s: &Stmt) -> String {
        match s {
            Stmt::Block(_) => self.stmt(s),
            other => format!("{{ {}; }}", self.stmt(other)),
        }
    }

    pub fn stmt(&self, s: &Stmt) -> String {
        match s {
            Stmt::Let(n, v) => format!("{n} := {}", self.stmt(v)),
            Stmt::Destruct(ns, v) => format!("({}) := {}", ns.join(", "), self.stmt(v)),
            Stmt::FnDecl(n, ps, r, b) => format!("{n} := {}", self.function(ps, r, b)),
            Stmt::Expr(e) => self.expr(e),
            Stmt::Block(b) => format!("{{ {} }}", self.stmts(b)),
            Stmt::If(c, t, e) => {
                let mut s = format!("if {} {}", self.expr(c), self.body(t));
                if let Some(e) = e {
                    s.push_str(&format!(" else {}", self.body(e)));
                }
                s
            }
            Stmt::IfSet(n, t, x, a, b) => {
                let mut s = format!("if {n}: {} = {} {}", t.print(), self.expr(x), self.body(a));
                if let Some(b) = b {
                    s.push_str(&format!(" else {}", self.body(b)));
                }
                s
            }
            Stmt::Match(x, arms) => {
                let mut s = format!("match {} {{ ", self.expr(x));
                for arm in arms {
                    match arm {
                        Arm::Values(vs, b) => s.push_str(&format!("{} => {}, ", self.list(vs), self.body(b))),
                        Arm::Type(n, t, b) => s.push_str(&format!("{n}: {} => {}, ", t.print(), self.body(b))),
                        Arm::Other(b) => s.push_str(&format!("=> {}, ", self.body(b))),
                    }
                }
                s.push('}');
                s
            }
            Stmt::Loop(b) => format!("loop {}", self.body(b)),
            Stmt::While(c, b) => format!("while {} {}", self.expr(c), self.body(b)),
            Stmt::WhileSet(n, t, x, b) => format!("while {n}: {} = {} {}", t.print(), self.expr(x), self.body(b)),
            Stmt::For(n, it, b) => format!("for {n} in {} {}", self.expr(it), self.body(b)),
            Stmt::Break => "break".into(),
            Stmt::Continue => "continue".into(),
            Stmt::Return(None) => "return".into(),
            Stmt::Return(Some(v)) => format!("return {}", self.stmt(v)),
        }
    }
}

fn matching_close(s: &str) -> Option<usize> {
    let mut depth = 0i32;
    let mut in_str = false;
    let mut prev = ' ';
    for (i, c) in s.char_indices() {
        if in_str {
            if c == '"' && prev != '\\' {
                in_str = false;
            }
            prev = if prev == '\\' && c == '\\' { ' ' } else { c };
            continue;
        }
        match c {
            '"' => in_str = true,
            '(' | '[' | '{' => depth += 1,
            ')' | ']' | '}' => {
                depth -= 1;
                if depth == 0 {
                    return Some(i);
                }
            }
            _ => {}
        }
        prev = c;
    }
    None
}

/// does the statement list contain a literal anywhere (C04 non-triviality helper)
pub fn count_literals_expr(e: &Expr) -> usize {
    let mut n = 0;
    walk_expr(e, &mut |x| {
        if matches!(x, Expr::Int(_) | Expr::Float(_) | Expr::Bool(_) | Expr::Str(_)) {
            n += 1;
        }
    });
    n
}

pub fn walk_expr(e: &Expr, f: &mut dyn FnMut(&Expr)) {
    f(e);
    match e {
        Expr::Neg(x) | Expr::Not(x) | Expr::Deref(x) | Expr::Iter(x) | Expr::Len(x) | Expr::Post(_, x) | Expr::Tick(_, _, x) => walk_expr(x, f),
        Expr::TupleAt(x, _) | Expr::Field(x, _) | Expr::TypeFilter(x, _) | Expr::MutNew(_, x) => walk_expr(x, f),
        Expr::Bin(_, a, b) | Expr::Repeat(a, b) | Expr::Index(a, b) | Expr::Assign(_, a, b) | Expr::Map(a, b) | Expr::Filter(a, b) | Expr::Partition(a, b) => {
            walk_expr(a, f);
            walk_expr(b, f);
        }
        Expr::Reduce(a, b, c) => {
            walk_expr(a, f);
            walk_expr(b, f);
            walk_expr(c, f);
        }
        Expr::Array(xs) | Expr::Tuple(xs) => xs.iter().for_each(|x| walk_expr(x, f)),
        Expr::Struct(fs) => fs.iter().for_each(|(_, x)| walk_expr(x, f)),
        Expr::Slice(a, s, e2, st) => {
            walk_expr(a, f);
            for x in [s, e2, st].into_iter().flatten() {
                walk_expr(x, f);
            }
        }
        Expr::Call(c, args) => {
            walk_expr(c, f);
            args.iter().for_each(|x| walk_expr(x, f));
        }
        Expr::Lambda(_, _, body) | Expr::Module(body) => body.iter().for_each(|s| walk_stmt(s, f)),
        _ => {}
    }
}

pub fn walk_stmt(s: &Stmt, f: &mut dyn FnMut(&Expr)) {
    match s {
        Stmt::Let(_, v) | Stmt::Destruct(_, v) => walk_stmt(v, f),
        Stmt::FnDecl(_, _, _, b) | Stmt::Block(b) => b.iter().for_each(|s| walk_stmt(s, f)),
        Stmt::Expr(e) => walk_expr(e, f),
        Stmt::If(c, t, e) => {
            walk_expr(c, f);
            walk_stmt(t, f);
            if let Some(e) = e {
                walk_stmt(e, f);
            }
        }
        Stmt::IfSet(_, _, x, a, b) => {
            walk_expr(x, f);
            walk_stmt(a, f);
            if let Some(b) = b {
                walk_stmt(b, f);
            }
        }
        Stmt::Match(x, arms) => {
            walk_expr(x, f);
            for arm in arms {
                match arm {
                    Arm::Values(vs, b) => {
                        vs.iter().for_each(|v| walk_expr(v, f));
                        walk_stmt(b, f);
                    }
                    Arm::Type(_, _, b) | Arm::Other(b) => walk_stmt(b, f),
                }
            }
        }
        Stmt::Loop(b) => walk_stmt(b, f),
        Stmt::While(c, b) => {
            walk_expr(c, f);
            walk_stmt(b, f);
        }
        Stmt::WhileSet(_, _, x, b) | Stmt::For(_, x, b) => {
            walk_expr(x, f);
            walk_stmt(b, f);
        }
        Stmt::Return(Some(v)) => walk_stmt(v, f),
        _ => {}
    }
}
