//! AST of the generated SimpleSL subset and its printer.
use crate::ty::Ty;

#[derive(Clone, Debug, PartialEq)]
pub enum Expr {
    Int(i64),
    Float(f64),
    Bool(bool),
    Str(String),
    Void,
    Var(String),
    Neg(Box<Expr>),
    Not(Box<Expr>),
    Deref(Box<Expr>),
    /// infix value operator (arithmetic, comparison, logic, concatenation)
    Bin(&'static str, Box<Expr>, Box<Expr>),
    Array(Vec<Expr>),
    Repeat(Box<Expr>, Box<Expr>),
    Tuple(Vec<Expr>),
    Struct(Vec<(String, Expr)>),
    Index(Box<Expr>, Box<Expr>),
    Slice(Box<Expr>, Option<Box<Expr>>, Option<Box<Expr>>, Option<Box<Expr>>),
    TupleAt(Box<Expr>, usize),
    Field(Box<Expr>, String),
    Call(Box<Expr>, Vec<Expr>),
    Lambda(Vec<(String, Ty)>, Ty, Vec<Stmt>),
    /// `mut T e`
    MutNew(Ty, Box<Expr>),
    /// `mut e` without a declared type: the cell's type is the static type of e (kept here for the reference)
    MutAuto(Ty, Box<Expr>),
    /// `target op value` with op one of = += -= ...
    Assign(&'static str, Box<Expr>, Box<Expr>),
    Iter(Box<Expr>),
    Map(Box<Expr>, Box<Expr>),
    Filter(Box<Expr>, Box<Expr>),
    TypeFilter(Box<Expr>, Ty),
    Partition(Box<Expr>, Box<Expr>),
    Reduce(Box<Expr>, Box<Expr>, Box<Expr>),
    /// postfix reducers: $+ $* $&& $|| $& $| $]
    Post(&'static str, Box<Expr>),
    /// `$+` / `$*` over an iterator of floats or strings (the element type decides the value for no elements)
    Sum(&'static str, Ty, Box<Expr>),
    Len(Box<Expr>),
    /// `tkN(k, e)`: appends k to the log after evaluating e, yields e (N names the tick function of e's type)
    Tick(usize, i64, Box<Expr>),
    /// `mod { ... }`
    Module(Vec<Stmt>),
}

#[derive(Clone, Debug, PartialEq)]
pub enum Arm {
    /// `v1, v2 => body,`
    Values(Vec<Expr>, Stmt),
    /// `name: T => body,`
    Type(String, Ty, Stmt),
    /// `=> body,`
    Other(Stmt),
}

#[derive(Clone, Debug, PartialEq)]
pub enum Stmt {
    /// `x := stm`
    Let(String, Box<Stmt>),
    /// `(a, b) := stm`
    Destruct(Vec<String>, Box<Stmt>),
    /// `f := (params) -> R { body }` (named: may call itself)
    FnDecl(String, Vec<(String, Ty)>, Ty, Vec<Stmt>),
    Expr(Expr),
    Block(Vec<Stmt>),
    If(Expr, Box<Stmt>, Option<Box<Stmt>>),
    IfSet(String, Ty, Expr, Box<Stmt>, Option<Box<Stmt>>),
    Match(Expr, Vec<Arm>),
    Loop(Box<Stmt>),
    While(Expr, Box<Stmt>),
    WhileSet(String, Ty, Expr, Box<Stmt>),
    For(String, Expr, Box<Stmt>),
    Break,
    Continue,
    Return(Option<Box<Stmt>>),
    /// `import "<dir>/<name>"`: the file holds the printed body; yields a struct of its top-level names
    Import(String, Vec<Stmt>),
}

/// a branch that can follow a condition without braces and without being read as part of it: a
/// non-negative literal or a name
fn bare_branch(s: &Stmt) -> bool {
    match s {
        Stmt::Expr(Expr::Int(i)) => *i >= 0,
        Stmt::Expr(Expr::Float(f)) => !f.is_sign_negative(),
        Stmt::Expr(Expr::Bool(_) | Expr::Str(_) | Expr::Var(_)) => true,
        _ => false,
    }
}

const L_ASSIGN: u8 = 0;
const L_ITER: u8 = 11;
const L_PREFIX: u8 = 12;
const L_POSTFIX: u8 = 13;
const L_PRIMARY: u8 = 14;

/// level of an infix value operator in the documented table (higher binds tighter)
fn bin_level(op: &str) -> u8 {
    match op {
        "||" => 1,
        "&&" => 2,
        "==" | "!=" | "<" | "<=" | ">" | ">=" => 3,
        "|" => 4,
        "^" => 5,
        "&" => 6,
        "<<" | ">>" => 7,
        "+" | "-" => 8,
        "*" | "/" | "%" => 9,
        "**" => 10,
        _ => 10,
    }
}

/// how literals are printed
#[derive(Clone, Copy, Debug, PartialEq)]
pub enum Hide {
    /// as literals (constants are visible to the folding pass)
    None,
    /// every literal `c` as `(*(mut T c))`
    All,
    /// literal number k (in print order) is hidden iff bit (k % 64) of the mask is set
    Mask(u64),
}

pub struct Printer {
    pub hide: Hide,
    counter: std::cell::Cell<u64>,
}

impl Printer {
    pub fn new(hide: Hide) -> Self {
        Self { hide, counter: std::cell::Cell::new(0) }
    }

    fn hidden(&self) -> bool {
        let k = self.counter.get();
        self.counter.set(k + 1);
        match self.hide {
            Hide::None => false,
            Hide::All => true,
            Hide::Mask(m) => (m >> (k % 64)) & 1 == 1,
        }
    }

    /// a literal: plain (primary) or hidden behind a fresh cell (prefix level)
    fn lit(&self, ty: &str, text: String) -> (String, u8) {
        if self.hidden() { (format!("*(mut {ty} {text})"), L_PREFIX) } else { (text, L_PRIMARY) }
    }

    /// prints with the minimal parentheses the documented precedence table requires
    pub fn expr(&self, e: &Expr) -> String {
        self.at(e, 0)
    }

    fn at(&self, e: &Expr, min: u8) -> String {
        let (s, level) = self.leveled(e);
        if level < min { format!("({s})") } else { s }
    }

    fn leveled(&self, e: &Expr) -> (String, u8) {
        match e {
            Expr::Int(i) => {
                if *i == i64::MIN {
                    let (a, _) = self.lit("int", "9223372036854775807".into());
                    (format!("(-{a} - 1)"), L_PRIMARY)
                } else if *i < 0 {
                    let (a, l) = self.lit("int", format!("{}", -(*i as i128)));
                    (format!("-{}", if l < L_POSTFIX { format!("({a})") } else { a }), L_PREFIX)
                } else {
                    self.lit("int", i.to_string())
                }
            }
            Expr::Float(f) => {
                if f.is_sign_negative() {
                    let (a, l) = self.lit("float", format!("{:?}", -f));
                    (format!("-{}", if l < L_POSTFIX { format!("({a})") } else { a }), L_PREFIX)
                } else {
                    self.lit("float", format!("{f:?}"))
                }
            }
            Expr::Bool(b) => self.lit("bool", b.to_string()),
            Expr::Str(s) => self.lit("string", crate::lit::escape_string(s)),
            Expr::Void => ("()".into(), L_PRIMARY),
            Expr::Var(n) => (n.clone(), L_PRIMARY),
            Expr::Neg(x) => (format!("-{}", self.at(x, L_POSTFIX)), L_PREFIX),
            Expr::Not(x) => (format!("!{}", self.at(x, L_POSTFIX)), L_PREFIX),
            Expr::Deref(x) => (format!("*{}", self.at(x, L_POSTFIX)), L_PREFIX),
            Expr::Bin(op, a, b) => {
                let l = bin_level(op);
                (format!("{} {op} {}", self.at(a, l), self.at(b, l + 1)), l)
            }
            Expr::Array(xs) => (format!("[{}]", self.list(xs)), L_PRIMARY),
            Expr::Repeat(v, n) => (format!("[{}; {}]", self.at(v, 0), self.at(n, 0)), L_PRIMARY),
            Expr::Tuple(xs) => (format!("({})", self.list(xs)), L_PRIMARY),
            Expr::Struct(fs) => (
                format!("struct{{{}}}", fs.iter().map(|(k, v)| format!("{k} := {}", self.at(v, 0))).collect::<Vec<_>>().join(", ")),
                L_PRIMARY,
            ),
            Expr::Index(a, i) => (format!("{}[{}]", self.at(a, L_POSTFIX), self.at(i, 0)), L_POSTFIX),
            Expr::Slice(a, s, e, st) => {
                let p = |x: &Option<Box<Expr>>| x.as_ref().map(|x| self.at(x, 0)).unwrap_or_default();
                let base = self.at(a, L_POSTFIX);
                let text = if st.is_some() {
                    format!("{base}[{}:{}:{}]", p(s), p(e), p(st))
                } else {
                    format!("{base}[{}:{}]", p(s), p(e))
                };
                (text, L_POSTFIX)
            }
            Expr::TupleAt(a, k) => (format!("{}.{k}", self.at(a, L_POSTFIX)), L_POSTFIX),
            Expr::Field(a, f) => (format!("{}.{f}", self.at(a, L_POSTFIX)), L_POSTFIX),
            Expr::Call(f, args) => (format!("{}({})", self.at(f, L_POSTFIX), self.list(args)), L_POSTFIX),
            // a function literal in parentheses is always an expression, never a declaration
            Expr::Lambda(params, ret, body) => (format!("({})", self.function(params, ret, body)), L_PRIMARY),
            // `mut T e` takes the whole following expression: it is kept inside parentheses
            Expr::MutNew(t, x) => (format!("(mut {} {})", t.print(), self.at(x, 0)), L_PRIMARY),
            Expr::MutAuto(_, x) => (format!("(mut {})", self.at(x, 0)), L_PRIMARY),
            Expr::Assign(op, t, v) => (format!("{} {op} {}", self.at(t, L_ASSIGN + 1), self.at(v, L_ASSIGN)), L_ASSIGN),
            Expr::Iter(a) => (format!("{}~", self.at(a, L_ITER)), L_ITER),
            Expr::Map(it, f) => (format!("{} @ {}", self.at(it, L_ITER), self.at(f, L_PREFIX)), L_ITER),
            Expr::Filter(it, f) => (format!("{} ? {}", self.at(it, L_ITER), self.at(f, L_PREFIX)), L_ITER),
            // `? type` is a postfix form of the tightest level
            Expr::TypeFilter(it, t) => (format!("{} ? {}", self.at(it, L_POSTFIX), t.print()), L_POSTFIX),
            Expr::Partition(it, f) => (format!("{} \\ {}", self.at(it, L_ITER), self.at(f, L_PREFIX)), L_ITER),
            Expr::Reduce(it, init, f) => {
                // `it $ init f`: the initial value is parsed as a whole expression, so it is kept
                // primary; a parenthesised function literal right after it would be read as a
                // call of the initial value, so a literal function goes bare
                let fun = match &**f {
                    Expr::Lambda(ps, r, b) => self.function(ps, r, b),
                    other => self.at(other, L_PREFIX),
                };
                (format!("{} $ {} {fun}", self.at(it, L_ITER), self.at(init, L_PRIMARY)), L_ITER)
            }
            Expr::Post(op, it) | Expr::Sum(op, _, it) => (format!("{} {op}", self.at(it, L_ITER)), L_ITER),
            Expr::Len(x) => (format!("std.len({})", self.at(x, 0)), L_POSTFIX),
            Expr::Tick(n, k, x) => (format!("tk{n}({k}, {})", self.at(x, 0)), L_POSTFIX),
            Expr::Module(body) => (format!("mod {{ {} }}", self.stmts(body)), L_PRIMARY),
        }
    }

    fn paren(&self, e: &Expr) -> String {
        self.at(e, L_PRIMARY)
    }

    fn list(&self, xs: &[Expr]) -> String {
        xs.iter().map(|x| self.at(x, 0)).collect::<Vec<_>>().join(", ")
    }

    pub fn function(&self, params: &[(String, Ty)], ret: &Ty, body: &[Stmt]) -> String {
        let ps = params.iter().map(|(n, t)| format!("{n}: {}", t.print())).collect::<Vec<_>>().join(", ");
        let r = if *ret == Ty::Void { String::new() } else { format!(" -> {}", ret.print()) };
        format!("({ps}){r} {{ {} }}", self.stmts(body))
    }

    pub fn stmts(&self, body: &[Stmt]) -> String {
        body.iter().map(|s| format!("{};", self.stmt(s))).collect::<Vec<_>>().join(" ")
    }

    /// body of if / else / loop / arm: always a block (unless it already is one)
    fn body(&self, s: &Stmt) -> String {
        match s {
            Stmt::Block(_) => self.stmt(s),
            other => format!("{{ {}; }}", self.stmt(other)),
        }
    }

    /// an expression that is followed by `{`: a trailing `()` would be read together with the
    /// block as a function literal `() { .. }`, so such an expression is parenthesised
    fn head(&self, e: &Expr) -> String {
        let s = self.expr(e);
        if s.ends_with("()") { format!("({s})") } else { s }
    }

    pub fn stmt(&self, s: &Stmt) -> String {
        match s {
            Stmt::Let(n, v) => format!("{n} := {}", self.stmt(v)),
            Stmt::Destruct(ns, v) => format!("({}) := {}", ns.join(", "), self.stmt(v)),
            Stmt::FnDecl(n, ps, r, b) => format!("{n} := {}", self.function(ps, r, b)),
            Stmt::Expr(e) => self.expr(e),
            Stmt::Block(b) => format!("{{ {} }}", self.stmts(b)),
            Stmt::If(c, t, Some(e)) if bare_branch(t) && bare_branch(e) => {
                // branches without braces: `if c 7 else 7` (not when a literal is printed hidden, `*(mut int 7)`,
                // which would be read as a factor of the condition); every part is printed exactly once
                let head = self.head(c);
                let (a, b) = (self.stmt(t), self.stmt(e));
                let safe = |x: &str| x.starts_with(|ch: char| ch.is_ascii_alphanumeric() || ch == '"');
                if safe(&a) && safe(&b) { format!("if {head} {a} else {b}") } else { format!("if {head} {{ {a}; }} else {{ {b}; }}") }
            }
            Stmt::If(c, t, e) => {
                let mut s = format!("if {} {}", self.head(c), self.body(t));
                if let Some(e) = e {
                    s.push_str(&format!(" else {}", self.body(e)));
                }
                s
            }
            Stmt::IfSet(n, t, x, a, b) => {
                let mut s = format!("if {n}: {} = {} {}", t.print(), self.head(x), self.body(a));
                if let Some(b) = b {
                    s.push_str(&format!(" else {}", self.body(b)));
                }
                s
            }
            Stmt::Match(x, arms) => {
                let mut s = format!("match {} {{ ", self.head(x));
                for arm in arms {
                    match arm {
                        Arm::Values(vs, b) => s.push_str(&format!("{} => {}, ", self.list(vs), self.body(b))),
                        Arm::Type(n, t, b) => s.push_str(&format!("{n}: {} => {}, ", t.print(), self.body(b))),
                        Arm::Other(b) => s.push_str(&format!("=> {}, ", self.body(b))),
                    }
                }
                s.push('}');
                s
            }
            Stmt::Loop(b) => format!("loop {}", self.body(b)),
            Stmt::While(c, b) => format!("while {} {}", self.head(c), self.body(b)),
            Stmt::WhileSet(n, t, x, b) => format!("while {n}: {} = {} {}", t.print(), self.head(x), self.body(b)),
            Stmt::For(n, it, b) => format!("for {n} in {} {}", self.head(it), self.body(b)),
            Stmt::Break => "break".into(),
            Stmt::Continue => "continue".into(),
            Stmt::Import(name, _) => format!("import \"@DIR@/{name}\""),
            Stmt::Return(None) => "return".into(),
            Stmt::Return(Some(v)) => format!("return {}", self.stmt(v)),
        }
    }
}

fn matching_close(s: &str) -> Option<usize> {
    let mut depth = 0i32;
    let mut in_str = false;
    let mut prev = ' ';
    for (i, c) in s.char_indices() {
        if in_str {
            if c == '"' && prev != '\\' {
                in_str = false;
            }
            prev = if prev == '\\' && c == '\\' { ' ' } else { c };
            continue;
        }
        match c {
            '"' => in_str = true,
            '(' | '[' | '{' => depth += 1,
            ')' | ']' | '}' => {
                depth -= 1;
                if depth == 0 {
                    return Some(i);
                }
            }
            _ => {}
        }
        prev = c;
    }
    None
}

/// does the statement list contain a literal anywhere (C04 non-triviality helper)
pub fn count_literals_expr(e: &Expr) -> usize {
    let mut n = 0;
    walk_expr(e, &mut |x| {
        if matches!(x, Expr::Int(_) | Expr::Float(_) | Expr::Bool(_) | Expr::Str(_)) {
            n += 1;
        }
    });
    n
}

pub fn walk_expr(e: &Expr, f: &mut dyn FnMut(&Expr)) {
    f(e);
    match e {
        Expr::Neg(x) | Expr::Not(x) | Expr::Deref(x) | Expr::Iter(x) | Expr::Len(x) | Expr::Post(_, x) | Expr::Sum(_, _, x) | Expr::Tick(_, _, x) => walk_expr(x, f),
        Expr::TupleAt(x, _) | Expr::Field(x, _) | Expr::TypeFilter(x, _) | Expr::MutNew(_, x) | Expr::MutAuto(_, x) => walk_expr(x, f),
        Expr::Bin(_, a, b) | Expr::Repeat(a, b) | Expr::Index(a, b) | Expr::Assign(_, a, b) | Expr::Map(a, b) | Expr::Filter(a, b) | Expr::Partition(a, b) => {
            walk_expr(a, f);
            walk_expr(b, f);
        }
        Expr::Reduce(a, b, c) => {
            walk_expr(a, f);
            walk_expr(b, f);
            walk_expr(c, f);
        }
        Expr::Array(xs) | Expr::Tuple(xs) => xs.iter().for_each(|x| walk_expr(x, f)),
        Expr::Struct(fs) => fs.iter().for_each(|(_, x)| walk_expr(x, f)),
        Expr::Slice(a, s, e2, st) => {
            walk_expr(a, f);
            for x in [s, e2, st].into_iter().flatten() {
                walk_expr(x, f);
            }
        }
        Expr::Call(c, args) => {
            walk_expr(c, f);
            args.iter().for_each(|x| walk_expr(x, f));
        }
        Expr::Lambda(_, _, body) | Expr::Module(body) => body.iter().for_each(|s| walk_stmt(s, f)),
        _ => {}
    }
}

pub fn walk_stmt(s: &Stmt, f: &mut dyn FnMut(&Expr)) {
    match s {
        Stmt::Let(_, v) | Stmt::Destruct(_, v) => walk_stmt(v, f),
        Stmt::FnDecl(_, _, _, b) | Stmt::Block(b) => b.iter().for_each(|s| walk_stmt(s, f)),
        Stmt::Expr(e) => walk_expr(e, f),
        Stmt::If(c, t, e) => {
            walk_expr(c, f);
            walk_stmt(t, f);
            if let Some(e) = e {
                walk_stmt(e, f);
            }
        }
        Stmt::IfSet(_, _, x, a, b) => {
            walk_expr(x, f);
            walk_stmt(a, f);
            if let Some(b) = b {
                walk_stmt(b, f);
            }
        }
        Stmt::Match(x, arms) => {
            walk_expr(x, f);
            for arm in arms {
                match arm {
                    Arm::Values(vs, b) => {
                        vs.iter().for_each(|v| walk_expr(v, f));
                        walk_stmt(b, f);
                    }
                    Arm::Type(_, _, b) | Arm::Other(b) => walk_stmt(b, f),
                }
            }
        }
        Stmt::Loop(b) => walk_stmt(b, f),
        Stmt::While(c, b) => {
            walk_expr(c, f);
            walk_stmt(b, f);
        }
        Stmt::WhileSet(_, _, x, b) | Stmt::For(_, x, b) => {
            walk_expr(x, f);
            walk_stmt(b, f);
        }
        Stmt::Return(Some(v)) => walk_stmt(v, f),
        Stmt::Import(_, b) => b.iter().for_each(|s| walk_stmt(s, f)),
        _ => {}
    }
}

/// (file name, body) of every import statement of the program
pub fn collect_imports(body: &[Stmt], out: &mut Vec<(String, Vec<Stmt>)>) {
    fn in_expr(e: &Expr, out: &mut Vec<(String, Vec<Stmt>)>) {
        match e {
            Expr::Lambda(_, _, b) | Expr::Module(b) => collect_imports(b, out),
            _ => {}
        }
    }
    for s in body {
        // expressions that sit directly in a statement (conditions, scrutinees, candidates, sources)
        let mut direct: Vec<&Expr> = vec![];
        match s {
            Stmt::If(c, ..) | Stmt::While(c, _) => direct.push(c),
            Stmt::IfSet(_, _, e, ..) | Stmt::WhileSet(_, _, e, _) | Stmt::For(_, e, _) => direct.push(e),
            Stmt::Match(x, arms) => {
                direct.push(x);
                for arm in arms {
                    if let Arm::Values(vs, _) = arm {
                        direct.extend(vs.iter());
                    }
                }
            }
            _ => {}
        }
        for e in direct {
            let mut found = vec![];
            walk_expr(e, &mut |x| in_expr(x, &mut found));
            out.append(&mut found);
        }
        match s {
            Stmt::Import(n, b) => {
                out.push((n.clone(), b.clone()));
                collect_imports(b, out);
            }
            Stmt::Let(_, v) | Stmt::Destruct(_, v) => collect_imports(std::slice::from_ref(v), out),
            Stmt::FnDecl(_, _, _, b) | Stmt::Block(b) => collect_imports(b, out),
            Stmt::If(_, t, e) => {
                collect_imports(std::slice::from_ref(t), out);
                if let Some(e) = e {
                    collect_imports(std::slice::from_ref(e), out);
                }
            }
            Stmt::IfSet(_, _, _, a, b) => {
                collect_imports(std::slice::from_ref(a), out);
                if let Some(b) = b {
                    collect_imports(std::slice::from_ref(b), out);
                }
            }
            Stmt::Match(_, arms) => {
                for arm in arms {
                    match arm {
                        Arm::Values(_, b) | Arm::Type(_, _, b) | Arm::Other(b) => collect_imports(std::slice::from_ref(b), out),
                    }
                }
            }
            Stmt::Loop(b) | Stmt::While(_, b) | Stmt::WhileSet(_, _, _, b) | Stmt::For(_, _, b) => collect_imports(std::slice::from_ref(b), out),
            Stmt::Return(Some(v)) => collect_imports(std::slice::from_ref(v), out),
            Stmt::Expr(e) => {
                let mut found = vec![];
                walk_expr(e, &mut |x| in_expr(x, &mut found));
                out.append(&mut found);
            }
            _ => {}
        }
    }
}
