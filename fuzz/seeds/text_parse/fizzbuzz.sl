fizzbuzz := (number: int) -> string|int {
    if number%15==0 return "FizzBuzz";
    if number%3==0 return "Fizz";
    if number%5==0 return "Buzz";
    return number;
};

/*
Returns iterator of values from start to end
*/
iota := (start: int, end: int) -> () -> (bool, int) {
    i:=mut start;
    return () -> (bool, int) {
        result := *i;
        if(result > end) return (false, 0);
        i+=1;
        return (true, result);
    }
};

iota(1, 15) @ fizzbuzz @ std.io.print $];