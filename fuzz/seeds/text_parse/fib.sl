int := (variable: any, fallback: int) -> int {
    return match variable {
        value: int => value,
        => fallback,
    };
};

custom_fib := (fib0: int, fib1: int, n:int) -> int {
    if n < 1 return fib0;
    if n == 1 return fib1;
    return custom_fib(fib1, fib0+fib1, n-1);
};

fib := (n:int) -> int {
    return custom_fib(0, 1, n);
};

custom_array_fib := (elements: [int], n: int) -> [int] {
    len := std.len(elements);
    if len >= n return elements;
    next_fib := elements[len-1] + elements[len-2];
    return custom_array_fib(elements+[next_fib], n);
};

array_fib := (n: int) -> [int] {
    return custom_array_fib([0,1], n);
};
