sort := (array: [int]) -> [int] {
    if std.len(array) < 2 return array;
    first := array[0];
    (array1, array2) := array~\(item:int)->bool{return item < first;};
    (array2, array3) := array2~\(item:int)->bool{return first == item};
    return sort(array1)+array2+sort(array3);
};
