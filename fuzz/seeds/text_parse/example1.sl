print:=std.io.print;
print_array:=std.io.print_array;
len:=std.len;
print("Hello world!");
x := 5;
y := 6;
print_array([x, "+", y, "=", x+y], " ");
array := [y, x*7, [54.5], "text", x, len];
print(array);
example_function := (name:string){
    print("Hello " + name + "!");
};
example_function("world");
