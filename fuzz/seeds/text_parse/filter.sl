i := mut 0;
x := () -> (bool, int) {
    i += 1;
    return (*i <= 5, *i);
}

filter := (func: () -> (bool, int), predicate: (int) -> bool) -> () -> (bool, int) {
    return () -> (bool, int) {
        loop {
            res := func();
            (con, value) := res;
            if !con || predicate(value) return res;
        }
        return (false, 0);
    }
}

a := filter(x, (a:int) -> bool {return a%2 == 0})

iter := (array: [int]) -> () -> (bool, int) {
    i := mut -1;
    len := std.len(array)
    return () -> (bool, int) {
        i+=1;
        if *i < len {
            return (true, array[*i])
        }
        return (false, 0)
    }
}

collect := (iter: ()->(bool,int)) -> [int]{
    res := mut [int] [];
    loop {
        (con, value) := iter();
        if (!con) {
            break;
        }
        res += [value];
    }
    return *res;
}
