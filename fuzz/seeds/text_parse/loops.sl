i:= mut 0

loop {
    if (*i==3) {
        i+=1;
        continue;
    }
    j := mut 0
    while(*j<*i){
        print(*j)
        j+=1;
    }
    i+=1;
    if *i>5 {
        break;
    }
}