#![no_main]
//! bytes -> tape -> the generator and oracle of the property named by VERIF_FUZZ_PROP
use libfuzzer_sys::fuzz_target;

fuzz_target!(|data: &[u8]| {
    vharness::fuzz::tape_property(vharness::fuzz::property_from_env(), data);
});
