#![no_main]
//! raw UTF-8 text -> C03 (parsing and checking never panic)
use libfuzzer_sys::fuzz_target;

fuzz_target!(|data: &[u8]| {
    vharness::fuzz::text_parse(data);
});
